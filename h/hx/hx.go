// Package hx is the run-time side of the verification harness: it counts what a
// check explored, keeps samples, records violations (with their replay input) and
// known-finding hits, and writes one shard file that cmd/vcheck merges into
// evidence/<ID>.json.
package hx

import (
	"encoding/binary"
	"encoding/json"
	"flag"
	"fmt"
	"hash/fnv"
	"os"
	"path/filepath"
	"regexp"
	"sort"
	"strconv"
	"strings"
	"sync"
	"testing"
	"time"

	"pgregory.net/rapid"
)

// Violation is one failing case together with the input that reproduces it.
type Violation struct {
	Msg    string          `json:"msg"`
	Sig    string          `json:"sig,omitempty"`
	Replay json.RawMessage `json:"replay"`
}

// Finding is one entry of known_findings.json.
type Finding struct {
	ID        string   `json:"id"`
	Property  string   `json:"property"`
	Status    string   `json:"status"` // "known" or "fixed"
	What      string   `json:"what"`
	RootCause string   `json:"root_cause,omitempty"`
	Commit    string   `json:"commit,omitempty"`
	Replay    string   `json:"replay,omitempty"` // path relative to /verif
	Sigs      []string `json:"sigs,omitempty"`   // anchored regexps over discrepancy signatures
	Avoid     []string `json:"avoid,omitempty"`  // generator shapes excluded by construction while the finding is open
	Points    string   `json:"points,omitempty"` // file (relative to /verif) listing exact discrepancy signatures of a closed grid, one per line
	points    map[string]bool
	res       []*regexp.Regexp
}

// Match reports whether the discrepancy signature sig is exactly one this finding describes.
func (f *Finding) Match(sig string) bool {
	if f.points[sig] {
		return true
	}
	for _, re := range f.res {
		if re.MatchString(sig) {
			return true
		}
	}
	return false
}

type shardFile struct {
	ID          string           `json:"id"`
	Tier        string           `json:"tier"`
	Seed        uint64           `json:"seed"`
	Shard       int              `json:"shard"`
	Evals       int64            `json:"evaluations"`
	Nontrivial  int              `json:"nontrivial_local"`
	Classes     map[string]int64 `json:"classes"`
	Samples     []any            `json:"samples"`
	KnownHits   map[string]int64 `json:"known_hits"`
	KnownLines  map[string]bool  `json:"known_lines"`
	Violations  []Violation      `json:"violations"`
	Notes       []string         `json:"notes"`
	Exhaustive  bool             `json:"exhaustive"`
	Rule        string           `json:"rule"`
	Assumptions []string         `json:"assumptions"`
	Completed   bool             `json:"completed"`
	WallS       float64          `json:"wall_s"`
	Extra       map[string]any   `json:"extra,omitempty"`
}

// Run collects the statistics of one shard of one check.
type Run struct {
	ID      string
	Tier    string
	Seed    uint64
	Shard   int
	NShards int
	Root    string // /verif
	Replay  string // non-empty: replay this file instead of searching

	mu          sync.Mutex
	start       time.Time
	evals       int64
	nontriv     map[uint64]struct{}
	classes     map[string]int64
	samples     []any
	sampleEvery int64
	knownHits   map[string]int64
	knownLines  map[string]bool
	violations  []Violation
	last        *Violation // last failing rapid execution (= shrunk minimum)
	notes       []string
	exhaustive  bool
	rule        string
	assumptions []string
	completed   bool
	extra       map[string]any
	out         string
	findings    []*Finding
	all         []*Finding
}

func envInt(name string, def int) int {
	if s := os.Getenv(name); s != "" {
		if v, err := strconv.Atoi(s); err == nil {
			return v
		}
	}
	return def
}

// VerifRoot returns the directory that holds known_findings.json.
func VerifRoot() string {
	if s := os.Getenv("VERIF_ROOT"); s != "" {
		return s
	}
	dir, _ := os.Getwd()
	for d := dir; d != "/" && d != "."; d = filepath.Dir(d) {
		if _, err := os.Stat(filepath.Join(d, "properties.jsonl")); err == nil {
			return d
		}
	}
	return "/verif"
}

// Start opens the shard of property id described by the environment.
func Start(t *testing.T, id string) *Run {
	r := &Run{
		ID: id, Tier: os.Getenv("VERIF_TIER"), Shard: envInt("VERIF_SHARD", 0), NShards: envInt("VERIF_NSHARDS", 1),
		Root: VerifRoot(), Replay: os.Getenv("VERIF_REPLAY"), out: os.Getenv("VERIF_OUT"),
		nontriv: map[uint64]struct{}{}, classes: map[string]int64{}, knownHits: map[string]int64{}, knownLines: map[string]bool{},
		extra: map[string]any{}, start: time.Now(),
	}
	if r.Tier == "" {
		r.Tier = "quick"
	}
	if s := os.Getenv("VERIF_SHARD_SEED"); s != "" {
		r.Seed, _ = strconv.ParseUint(s, 10, 64)
	}
	if r.Seed == 0 {
		r.Seed = 1
	}
	r.loadFindings()
	t.Cleanup(func() { r.write() })
	return r
}

func (r *Run) loadFindings() {
	data, err := os.ReadFile(filepath.Join(r.Root, "known_findings.json"))
	if err != nil {
		return
	}
	var kf struct {
		Findings []*Finding `json:"findings"`
	}
	if err := json.Unmarshal(data, &kf); err != nil {
		panic("known_findings.json: " + err.Error())
	}
	for _, f := range kf.Findings {
		for _, s := range f.Sigs {
			f.res = append(f.res, regexp.MustCompile("^(?:"+s+")$"))
		}
		if f.Points != "" {
			f.points = map[string]bool{}
			if data, err := os.ReadFile(filepath.Join(r.Root, f.Points)); err == nil {
				for _, line := range strings.Split(string(data), "\n") {
					if line = strings.TrimSpace(line); line != "" {
						f.points[line] = true
					}
				}
			}
		}
		r.all = append(r.all, f)
		if f.Property == r.ID {
			r.findings = append(r.findings, f)
		}
	}
}

// MatchKnownOf returns the open finding of property prop whose matcher accepts sig, or nil. It lets
// a check recognise that a case is contaminated by a listed finding of another property (e.g. a
// mis-typed sub-expression, C03) before blaming its own property.
func (r *Run) MatchKnownOf(prop, sig string) *Finding {
	for _, f := range r.all {
		if f.Property == prop && f.Status == "known" && f.Match(sig) {
			return f
		}
	}
	return nil
}

// Findings returns the entries of known_findings.json for this property (known and fixed).
func (r *Run) Findings() []*Finding { return r.findings }

// MatchKnown returns the *known* (not fixed) finding whose matcher accepts sig, or nil.
func (r *Run) MatchKnown(sig string) *Finding {
	for _, f := range r.findings {
		if f.Status == "known" && f.Match(sig) {
			return f
		}
	}
	return nil
}

// Quick reports whether this is the quick tier.
func (r *Run) Quick() bool { return r.Tier != "thorough" }

// N picks a per-shard case count by tier.
func (r *Run) N(quick, thorough int) int {
	total := quick
	if !r.Quick() {
		total = thorough
	}
	n := total / r.NShards
	if n < 1 {
		n = 1
	}
	return n
}

// Eval counts one executed case.
func (r *Run) Eval() {
	r.mu.Lock()
	r.evals++
	r.mu.Unlock()
}

// EvalN counts n executed cases.
func (r *Run) EvalN(n int) {
	r.mu.Lock()
	r.evals += int64(n)
	r.mu.Unlock()
}

// Hash64 hashes a canonical case form.
func Hash64(s string) uint64 {
	h := fnv.New64a()
	h.Write([]byte(s))
	return h.Sum64()
}

// Nontrivial records the canonical form of a case that is non-trivial by the property's rule.
func (r *Run) Nontrivial(canon string) {
	k := Hash64(canon)
	r.mu.Lock()
	r.nontriv[k] = struct{}{}
	r.mu.Unlock()
}

// Class counts a case under a class label (generator distribution, verdict split, ...).
func (r *Run) Class(names ...string) {
	r.mu.Lock()
	for _, n := range names {
		r.classes[n]++
	}
	r.mu.Unlock()
}

// ClassN adds n to a class counter.
func (r *Run) ClassN(name string, n int64) {
	r.mu.Lock()
	r.classes[name] += n
	r.mu.Unlock()
}

// Sample offers a case as an evidence sample; the first three and then exponentially
// rarer ones are kept (at most 8).
func (r *Run) Sample(v func() any) {
	r.mu.Lock()
	defer r.mu.Unlock()
	r.sampleEvery++
	n := r.sampleEvery
	keep := n <= 3 || (n&(n-1)) == 0 && n >= 64
	if !keep {
		return
	}
	if len(r.samples) >= 8 {
		copy(r.samples[3:], r.samples[4:])
		r.samples = r.samples[:7]
	}
	r.samples = append(r.samples, v())
}

// Known counts a case whose (first) discrepancy is a listed known finding.
func (r *Run) Known(f *Finding) {
	r.mu.Lock()
	r.knownHits[f.ID]++
	r.mu.Unlock()
}

// KnownLine asks the runner to print the KNOWN-FINDING line of f (its replay still fails as listed).
func (r *Run) KnownLine(f *Finding) {
	r.mu.Lock()
	r.knownLines[f.ID] = true
	r.mu.Unlock()
}

// Note adds a free-text remark to the evidence.
func (r *Run) Note(format string, a ...any) {
	r.mu.Lock()
	r.notes = append(r.notes, fmt.Sprintf(format, a...))
	r.mu.Unlock()
}

// Extra stores an additional coverage key.
func (r *Run) Extra(k string, v any) {
	r.mu.Lock()
	r.extra[k] = v
	r.mu.Unlock()
}

func (r *Run) SetRule(s string)          { r.rule = s }
func (r *Run) Assume(s ...string)        { r.assumptions = append(r.assumptions, s...) }
func (r *Run) SetExhaustive(b bool)      { r.exhaustive = b }
func (r *Run) Done()                     { r.completed = true }
func (r *Run) NumViolations() int        { r.mu.Lock(); defer r.mu.Unlock(); return len(r.violations) }
func (r *Run) Evals() int64              { r.mu.Lock(); defer r.mu.Unlock(); return r.evals }
func (r *Run) ClassCount(n string) int64 { r.mu.Lock(); defer r.mu.Unlock(); return r.classes[n] }
func (r *Run) NontrivialCount() int      { r.mu.Lock(); defer r.mu.Unlock(); return len(r.nontriv) }

func raw(v any) json.RawMessage {
	b, err := json.Marshal(v)
	if err != nil {
		b, _ = json.Marshal(fmt.Sprintf("%+v", v))
	}
	return b
}

// Report records a violation found outside rapid (enumerations, replays). At most 20 are kept.
func (r *Run) Report(replay any, sig, format string, a ...any) {
	r.mu.Lock()
	defer r.mu.Unlock()
	if len(r.violations) < 20 {
		r.violations = append(r.violations, Violation{Msg: fmt.Sprintf(format, a...), Sig: sig, Replay: raw(replay)})
	}
}

// Fail records the failing case and fails the rapid property. rapid re-runs the property while
// shrinking and finally once more on the minimal case, so the last recorded case is the minimum.
func (r *Run) Fail(t *rapid.T, replay any, sig, format string, a ...any) {
	msg := fmt.Sprintf(format, a...)
	if os.Getenv("VERIF_COLLECT") != "" { // development aid: survey all discrepancy classes instead of stopping at the first
		r.mu.Lock()
		r.classes["SIG:"+sig]++
		if _, ok := r.extra["EX:"+sig]; !ok {
			r.extra["EX:"+sig] = msg
		}
		if rp := string(raw(replay)); len(rp) > 0 {
			if old, ok := r.extra["CASE:"+sig].(string); !ok || len(rp) < len(old) {
				r.extra["CASE:"+sig] = rp
			}
		}
		r.mu.Unlock()
		t.Skip("collected")
	}
	r.mu.Lock()
	r.last = &Violation{Msg: msg, Sig: sig, Replay: raw(replay)}
	r.mu.Unlock()
	t.Fatalf("%s", msg)
}

// Check runs a rapid property and converts a failure into a recorded violation instead of
// aborting the shard file.
func (r *Run) Check(t *testing.T, name string, checks int, prop func(*rapid.T)) {
	seed := r.Seed ^ Hash64(name)
	if seed == 0 {
		seed = 1
	}
	_ = flag.Set("rapid.checks", strconv.Itoa(checks))
	_ = flag.Set("rapid.seed", strconv.FormatUint(seed, 10))
	_ = flag.Set("rapid.nofailfile", "true")
	ok := t.Run(name, func(t *testing.T) { rapid.Check(t, prop) })
	r.mu.Lock()
	defer r.mu.Unlock()
	if !ok {
		if r.last != nil {
			r.violations = append(r.violations, *r.last)
		} else {
			r.violations = append(r.violations, Violation{Msg: "rapid property " + name + " failed without a recorded case (harness panic?)", Replay: raw(nil)})
		}
	}
	r.last = nil
}

func (r *Run) write() {
	if r.out == "" {
		return
	}
	r.mu.Lock()
	defer r.mu.Unlock()
	keys := make([]uint64, 0, len(r.nontriv))
	for k := range r.nontriv {
		keys = append(keys, k)
	}
	sort.Slice(keys, func(i, j int) bool { return keys[i] < keys[j] })
	buf := make([]byte, 8*len(keys))
	for i, k := range keys {
		binary.LittleEndian.PutUint64(buf[8*i:], k)
	}
	_ = os.WriteFile(r.out+".hashes", buf, 0o644)
	sf := shardFile{ID: r.ID, Tier: r.Tier, Seed: r.Seed, Shard: r.Shard, Evals: r.evals, Nontrivial: len(keys),
		Classes: r.classes, Samples: r.samples, KnownHits: r.knownHits, KnownLines: r.knownLines, Violations: r.violations,
		Notes: r.notes, Exhaustive: r.exhaustive, Rule: r.rule, Assumptions: r.assumptions, Completed: r.completed,
		WallS: time.Since(r.start).Seconds(), Extra: r.extra}
	data, err := json.MarshalIndent(sf, "", " ")
	if err != nil {
		data = []byte(fmt.Sprintf(`{"id":%q,"marshal_error":%q}`, r.ID, err.Error()))
	}
	_ = os.WriteFile(r.out, data, 0o644)
}

// ReplayInput loads the replay file given to this run into v.
func (r *Run) ReplayInput(v any) error {
	data, err := os.ReadFile(r.Replay)
	if err != nil {
		return err
	}
	return json.Unmarshal(data, v)
}

// LoadReplay loads a finding's replay file.
func (r *Run) LoadReplay(f *Finding, v any) error {
	data, err := os.ReadFile(filepath.Join(r.Root, f.Replay))
	if err != nil {
		return err
	}
	return json.Unmarshal(data, v)
}

// KnownAvoid returns the generator shapes to exclude: the union of the avoid lists of all findings
// (of any property) that are still open.
func KnownAvoid() map[string]bool {
	out := map[string]bool{}
	data, err := os.ReadFile(filepath.Join(VerifRoot(), "known_findings.json"))
	if err != nil {
		return out
	}
	var kf struct {
		Findings []*Finding `json:"findings"`
	}
	if json.Unmarshal(data, &kf) != nil {
		return out
	}
	for _, f := range kf.Findings {
		if f.Status == "known" {
			for _, a := range f.Avoid {
				out[a] = true
			}
		}
	}
	return out
}
