package oracle

import (
	"fmt"
	"go/ast"
	"go/parser"
	"go/token"
	"go/types"
	"sort"
	"strings"
)

// Checked is a type-checked set of files.
type Checked struct {
	Fset     *token.FileSet
	Files    []*ast.File
	Pkg      *types.Package
	Info     *types.Info
	ParseErr error
	Errs     []types.Error // all type errors
}

// IsUnusedErr reports whether a go/types message is one of the diagnostics the Go compiler (not a
// code generator) is responsible for: unused variables and unused imports. Unused *labels* are not.
func IsUnusedErr(msg string) bool {
	if strings.HasPrefix(msg, "label ") {
		return false
	}
	return strings.Contains(msg, "declared and not used") || strings.Contains(msg, "imported and not used") ||
		(strings.Contains(msg, " imported as ") && strings.Contains(msg, " and not used"))
}

// HardErrs returns the errors other than unused variables/imports.
func (c *Checked) HardErrs() []types.Error {
	var out []types.Error
	for _, e := range c.Errs {
		if !IsUnusedErr(e.Msg) {
			out = append(out, e)
		}
	}
	return out
}

func (c *Checked) OK() bool { return c.ParseErr == nil && len(c.HardErrs()) == 0 }

func (c *Checked) ErrText(max int) string {
	if c.ParseErr != nil {
		return "parse: " + c.ParseErr.Error()
	}
	var parts []string
	for i, e := range c.HardErrs() {
		if i >= max {
			parts = append(parts, "...")
			break
		}
		parts = append(parts, fmt.Sprintf("%s: %s", c.Fset.Position(e.Pos), e.Msg))
	}
	return strings.Join(parts, "; ")
}

// NewInfo allocates all maps of types.Info.
func NewInfo() *types.Info {
	return &types.Info{
		Types: map[ast.Expr]types.TypeAndValue{}, Defs: map[*ast.Ident]types.Object{}, Uses: map[*ast.Ident]types.Object{},
		Selections: map[*ast.SelectorExpr]*types.Selection{}, Instances: map[*ast.Ident]types.Instance{},
		Scopes: map[ast.Node]*types.Scope{}, Implicits: map[ast.Node]types.Object{},
	}
}

// CheckSources parses and type-checks named sources as one package.
func CheckSources(pkgPath string, srcs map[string]string, imp types.Importer) *Checked {
	c := &Checked{Fset: token.NewFileSet(), Info: NewInfo()}
	var names []string
	for n := range srcs {
		names = append(names, n)
	}
	sort.Strings(names)
	for _, n := range names {
		f, err := parser.ParseFile(c.Fset, n, srcs[n], parser.ParseComments|parser.SkipObjectResolution)
		if err != nil {
			c.ParseErr = err
			return c
		}
		c.Files = append(c.Files, f)
	}
	conf := types.Config{Importer: imp, Error: func(err error) {
		if te, ok := err.(types.Error); ok {
			c.Errs = append(c.Errs, te)
		}
	}}
	c.Pkg, _ = conf.Check(pkgPath, c.Fset, c.Files, c.Info)
	return c
}

// CheckParsed type-checks already parsed files (so that Info is keyed by the caller's syntax nodes).
func CheckParsed(pkgPath string, fset *token.FileSet, files []*ast.File, imp types.Importer) *Checked {
	c := &Checked{Fset: fset, Files: files, Info: NewInfo()}
	conf := types.Config{Importer: imp, Error: func(err error) {
		if te, ok := err.(types.Error); ok {
			c.Errs = append(c.Errs, te)
		}
	}}
	c.Pkg, _ = conf.Check(pkgPath, fset, files, c.Info)
	return c
}

// MsgClass reduces a diagnostic to a template: quoted parts, identifiers after known keywords,
// numbers and positions are stripped.
func MsgClass(msg string) string {
	if i := strings.Index(msg, "\n"); i >= 0 {
		msg = msg[:i]
	}
	var b strings.Builder
	inWord := false
	words := strings.FieldsFunc(msg, func(r rune) bool { return r == ' ' })
	_ = inWord
	keep := map[string]bool{}
	for _, w := range strings.Fields("ambiguous selector unexported refer pointer addressable cannot use as value in assignment argument to return statement variable declaration invalid operation operator not defined on mismatched types and untyped constant overflows truncated division by zero shift count of must be integer negative missing redeclared this block undefined declared used is a type expression evaluated but call non-function too many few arguments values assign convert range over indirect index slice type assertion interface implement method label already defined no new variables left side := expected got want have comparable compared only nil map key literal field unknown duplicate case switch select send receive channel direction struct array out bounds constant representable by value for func does implements satisfy infer instantiate parameter result unreachable fallthrough break continue goto jumps into over defer go requires function discards take address cannot unary binary untyped bool int float rune string complex number") {
		keep[w] = true
	}
	for _, w := range words {
		w2 := strings.Trim(w, "(),:;.")
		if keep[w2] {
			b.WriteString(w2)
			b.WriteByte(' ')
		}
	}
	return strings.TrimSpace(b.String())
}
