// Package oracle wraps go/types: importers, checking of sources and outputs, canonical forms.
package oracle

import (
	"bytes"
	"fmt"
	"go/ast"
	"go/importer"
	"go/parser"
	"go/token"
	"go/types"
	"io"
	"os"
	"os/exec"
	"strings"
	"sync"
)

// StdPackages are located once per process with `go list -export` (run in /verif, so that
// github.com/goplus/gogen/... resolves to /repo through the replace directive).
var StdPackages = []string{"fmt", "strings", "strconv", "math", "math/big", "iter", "time", "io", "os", "sync", "reflect", "unsafe",
	"errors", "sort", "bytes", "context", "unicode/utf8",
	"github.com/goplus/gogen/internal/builtin", "github.com/goplus/gogen/internal/foo", "github.com/goplus/gogen/internal/bar",
	"github.com/goplus/gogen/internal/overload", "github.com/goplus/gogen/internal/iox"}

var (
	exportOnce  sync.Once
	exportFiles map[string]string
	exportErr   error
)

func locateExports() {
	exportFiles = map[string]string{}
	args := append([]string{"list", "-mod=mod", "-export", "-deps", "-f", "{{.ImportPath}}\t{{.Export}}"}, StdPackages...)
	cmd := exec.Command("go", args...)
	cmd.Dir = verifRoot()
	env := []string{}
	for _, e := range os.Environ() {
		if strings.HasPrefix(e, "GOFLAGS=") || strings.HasPrefix(e, "PATH=") && os.Getenv("VERIF_REAL_PATH") != "" {
			continue
		}
		env = append(env, e)
	}
	if p := os.Getenv("VERIF_REAL_PATH"); p != "" {
		env = append(env, "PATH="+p)
	}
	cmd.Env = append(env, "GOFLAGS=", "GOPROXY=off", "GOSUMDB=off", "GOTOOLCHAIN=local", "GOWORK=off")
	var stderr bytes.Buffer
	cmd.Stderr = &stderr
	out, err := cmd.Output()
	if err != nil {
		exportErr = fmt.Errorf("go list -export: %v\n%s", err, stderr.String())
		return
	}
	for _, line := range strings.Split(string(out), "\n") {
		if i := strings.IndexByte(line, '\t'); i > 0 && line[i+1:] != "" {
			exportFiles[line[:i]] = line[i+1:]
		}
	}
}

func verifRoot() string {
	if s := os.Getenv("VERIF_ROOT"); s != "" {
		return s
	}
	return "/verif"
}

func lookup(path string) (io.ReadCloser, error) {
	exportOnce.Do(locateExports)
	if exportErr != nil {
		return nil, exportErr
	}
	f, ok := exportFiles[path]
	if !ok {
		return nil, fmt.Errorf("no export data for %q", path)
	}
	return os.Open(f)
}

var (
	srcMu   sync.Mutex
	srcPkgs = map[string]string{} // synthetic packages: import path -> Go source (single file)
)

// RegisterSource makes a synthetic package importable (by importers created afterwards and before).
func RegisterSource(path, src string) {
	srcMu.Lock()
	srcPkgs[path] = src
	srcMu.Unlock()
}

// srcImporter serves registered synthetic packages (type-checked from source, once per importer
// instance) in front of the export-data importer.
type srcImporter struct {
	base  types.Importer
	fset  *token.FileSet
	cache map[string]*types.Package
}

func (s *srcImporter) Import(path string) (*types.Package, error) {
	if p, ok := s.cache[path]; ok {
		return p, nil
	}
	srcMu.Lock()
	src, ok := srcPkgs[path]
	srcMu.Unlock()
	if !ok {
		return s.base.Import(path)
	}
	f, err := parser.ParseFile(s.fset, path+"/src.go", src, 0)
	if err != nil {
		return nil, err
	}
	conf := types.Config{Importer: s}
	pkg, err := conf.Check(path, s.fset, []*ast.File{f}, nil)
	if err != nil {
		return nil, err
	}
	s.cache[path] = pkg
	return pkg, nil
}

// NewImporter returns a fresh importer (own package cache, own FileSet).
func NewImporter() types.Importer {
	fset := token.NewFileSet()
	return &srcImporter{base: importer.ForCompiler(fset, "gc", lookup), fset: fset, cache: map[string]*types.Package{}}
}

var (
	sharedOnce sync.Once
	shared     types.Importer
)

type lockedImporter struct {
	mu  sync.Mutex
	imp types.Importer
}

func (l *lockedImporter) Import(path string) (*types.Package, error) {
	l.mu.Lock()
	defer l.mu.Unlock()
	return l.imp.Import(path)
}

// Importer returns a process-wide importer for read-only use (standard packages are never mutated
// by gogen; packages gogen rewrites on import (XGo packages) must come from NewImporter).
func Importer() types.Importer {
	sharedOnce.Do(func() { shared = &lockedImporter{imp: NewImporter()} })
	return shared
}

// Preload resolves the export data location eagerly and reports a problem.
func Preload() error {
	exportOnce.Do(locateExports)
	return exportErr
}
