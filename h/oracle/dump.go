package oracle

import (
	"fmt"
	"go/ast"
	"go/constant"
	"go/token"
	"go/types"
	"sort"
	"strconv"
	"strings"
)

// TypeKey renders a type canonically: aliases are resolved, parameter names dropped, interface
// methods sorted, named types fully qualified (path.Name, or Name for types local to a function),
// struct tags, embedding, channel directions, variadic-ness, type arguments and union terms kept.
func TypeKey(t types.Type) string {
	var b strings.Builder
	writeType(&b, t, nil)
	return b.String()
}

func writeType(b *strings.Builder, t types.Type, seen []types.Type) {
	if t == nil {
		b.WriteString("<nil>")
		return
	}
	switch t := t.(type) {
	case *types.Alias:
		writeType(b, types.Unalias(t), seen)
	case *types.Basic:
		switch t.Kind() {
		case types.Byte:
			b.WriteString("uint8")
		case types.Rune:
			b.WriteString("int32")
		default:
			b.WriteString(t.Name())
		}
	case *types.Named:
		obj := t.Obj()
		if obj.Pkg() != nil {
			if obj.Parent() != nil && obj.Parent() != obj.Pkg().Scope() {
				b.WriteString("local:")
			} else if obj.Parent() == nil && t.TypeArgs().Len() > 0 && t.Origin().Obj().Parent() != obj.Pkg().Scope() && t.Origin().Obj().Parent() != nil {
				b.WriteString("local:")
			} else {
				b.WriteString(obj.Pkg().Path())
				b.WriteByte('.')
			}
		}
		b.WriteString(obj.Name())
		if ta := t.TypeArgs(); ta.Len() > 0 {
			b.WriteByte('[')
			for i := 0; i < ta.Len(); i++ {
				if i > 0 {
					b.WriteByte(',')
				}
				writeType(b, ta.At(i), seen)
			}
			b.WriteByte(']')
		}
	case *types.TypeParam:
		fmt.Fprintf(b, "tparam:%s#%d", t.Obj().Name(), t.Index())
	case *types.Pointer:
		b.WriteByte('*')
		writeType(b, t.Elem(), seen)
	case *types.Slice:
		b.WriteString("[]")
		writeType(b, t.Elem(), seen)
	case *types.Array:
		fmt.Fprintf(b, "[%d]", t.Len())
		writeType(b, t.Elem(), seen)
	case *types.Map:
		b.WriteString("map[")
		writeType(b, t.Key(), seen)
		b.WriteByte(']')
		writeType(b, t.Elem(), seen)
	case *types.Chan:
		switch t.Dir() {
		case types.SendOnly:
			b.WriteString("chan<-(")
		case types.RecvOnly:
			b.WriteString("<-chan(")
		default:
			b.WriteString("chan(")
		}
		writeType(b, t.Elem(), seen)
		b.WriteByte(')')
	case *types.Signature:
		b.WriteString("func")
		if tp := t.TypeParams(); tp.Len() > 0 {
			b.WriteByte('[')
			for i := 0; i < tp.Len(); i++ {
				if i > 0 {
					b.WriteByte(',')
				}
				writeType(b, tp.At(i).Constraint(), seen)
			}
			b.WriteByte(']')
		}
		writeTuple(b, t.Params(), t.Variadic(), seen)
		if t.Results().Len() > 0 {
			writeTuple(b, t.Results(), false, seen)
		}
	case *types.Tuple:
		writeTuple(b, t, false, seen)
	case *types.Struct:
		b.WriteString("struct{")
		for i := 0; i < t.NumFields(); i++ {
			f := t.Field(i)
			if i > 0 {
				b.WriteByte(';')
			}
			if f.Embedded() {
				b.WriteString("embed ")
			} else {
				b.WriteString(f.Name())
				b.WriteByte(' ')
			}
			writeType(b, f.Type(), seen)
			if tag := t.Tag(i); tag != "" {
				b.WriteString(" " + strconv.Quote(tag))
			}
		}
		b.WriteByte('}')
	case *types.Interface:
		for _, s := range seen {
			if s == t {
				b.WriteString("interface{...cycle}")
				return
			}
		}
		seen = append(seen, t)
		var parts []string
		for i := 0; i < t.NumMethods(); i++ { // complete method set (embedded interfaces flattened)
			m := t.Method(i)
			var mb strings.Builder
			mb.WriteString(m.Name())
			sig := m.Type().(*types.Signature)
			writeTuple(&mb, sig.Params(), sig.Variadic(), seen)
			if sig.Results().Len() > 0 {
				writeTuple(&mb, sig.Results(), false, seen)
			}
			parts = append(parts, mb.String())
		}
		sort.Strings(parts)
		if t.IsComparable() && t.NumMethods() == 0 && isPureComparable(t) {
			parts = append(parts, "comparable")
		}
		var unions []string
		var collect func(it *types.Interface)
		collect = func(it *types.Interface) {
			for i := 0; i < it.NumEmbeddeds(); i++ {
				switch e := types.Unalias(it.EmbeddedType(i)).(type) {
				case *types.Union:
					var terms []string
					for j := 0; j < e.Len(); j++ {
						var tb strings.Builder
						if e.Term(j).Tilde() {
							tb.WriteByte('~')
						}
						writeType(&tb, e.Term(j).Type(), seen)
						terms = append(terms, tb.String())
					}
					sort.Strings(terms)
					unions = append(unions, strings.Join(terms, "|"))
				case *types.Named:
					if e.Obj().Pkg() == nil && e.Obj().Name() == "comparable" {
						unions = append(unions, "comparable")
					} else if u, ok := e.Underlying().(*types.Interface); ok {
						collect(u)
					} else {
						var tb strings.Builder
						writeType(&tb, e, seen)
						unions = append(unions, tb.String())
					}
				case *types.Interface:
					collect(e)
				default:
					var tb strings.Builder
					writeType(&tb, e, seen)
					unions = append(unions, tb.String())
				}
			}
		}
		collect(t)
		sort.Strings(unions)
		parts = append(parts, unions...)
		b.WriteString("interface{" + strings.Join(dedup(parts), ";") + "}")
	case *types.Union:
		var terms []string
		for j := 0; j < t.Len(); j++ {
			var tb strings.Builder
			if t.Term(j).Tilde() {
				tb.WriteByte('~')
			}
			writeType(&tb, t.Term(j).Type(), seen)
			terms = append(terms, tb.String())
		}
		sort.Strings(terms)
		b.WriteString(strings.Join(terms, "|"))
	default:
		fmt.Fprintf(b, "%T(%s)", t, t.String())
	}
}

func isPureComparable(t *types.Interface) bool { return false }

func dedup(xs []string) []string {
	var out []string
	for i, x := range xs {
		if i == 0 || x != xs[i-1] {
			out = append(out, x)
		}
	}
	return out
}

func writeTuple(b *strings.Builder, t *types.Tuple, variadic bool, seen []types.Type) {
	b.WriteByte('(')
	for i := 0; i < t.Len(); i++ {
		if i > 0 {
			b.WriteByte(',')
		}
		if variadic && i == t.Len()-1 {
			b.WriteString("...")
			if s, ok := t.At(i).Type().(*types.Slice); ok {
				writeType(b, s.Elem(), seen)
				continue
			}
		}
		writeType(b, t.At(i).Type(), seen)
	}
	b.WriteByte(')')
}

// ConstKey renders a constant value exactly.
func ConstKey(v constant.Value) string {
	if v == nil {
		return ""
	}
	return v.Kind().String() + ":" + v.ExactString()
}

// ---------------------------------------------------------------------------------------------

// Dump renders a checked package canonically (see DESIGN §3): package-level objects sorted by
// name with kind, type and constant value; variable initialisers and function bodies as trees of
// node kinds, operators, constant values and resolved object identities, every expression
// annotated with its canonical type. Formatting, redundant parentheses, import names, grouping of
// declarations/parameters and elided composite-literal types do not appear in the dump.
func Dump(c *Checked) string { return DumpWith(c, DumpOpts{}) }

// DumpOpts relaxes the dump in exactly the way one listed known finding describes.
type DumpOpts struct {
	// FoldBoolConsts renders every constant boolean expression as the literal true/false of its
	// value (the builder emits `true` for `!false`, `1 < 2`, ...).
	FoldBoolConsts bool
	// LabelName, if set, renames labels (generated labels have no stable names)
	LabelName func(string) string
}

// DumpWith is Dump with relaxations.
func DumpWith(c *Checked, o DumpOpts) string {
	d := &dumper{c: c, pkg: c.Pkg, o: o}
	type entry struct{ key, text string }
	var entries []entry
	for _, f := range c.Files {
		for _, decl := range f.Decls {
			switch x := decl.(type) {
			case *ast.GenDecl:
				for _, sp := range x.Specs {
					switch s := sp.(type) {
					case *ast.ValueSpec:
						for i, n := range s.Names {
							if n.Name == "_" {
								continue
							}
							obj := c.Info.Defs[n]
							if obj == nil {
								continue
							}
							var b strings.Builder
							switch o := obj.(type) {
							case *types.Const:
								fmt.Fprintf(&b, "const %s %s = %s\n", n.Name, TypeKey(o.Type()), ConstKey(o.Val()))
							case *types.Var:
								fmt.Fprintf(&b, "var %s %s\n", n.Name, TypeKey(o.Type()))
								if len(s.Values) == len(s.Names) {
									d.reset()
									fmt.Fprintf(&b, "  init %s\n", d.expr(s.Values[i]))
								} else if len(s.Values) == 1 {
									d.reset()
									fmt.Fprintf(&b, "  init[%d] %s\n", i, d.expr(s.Values[0]))
								}
							}
							entries = append(entries, entry{n.Name, b.String()})
						}
					case *ast.TypeSpec:
						obj := c.Info.Defs[s.Name]
						if obj == nil {
							continue
						}
						var b strings.Builder
						tn := obj.(*types.TypeName)
						if tn.IsAlias() {
							fmt.Fprintf(&b, "alias %s = %s\n", s.Name.Name, TypeKey(tn.Type()))
						} else {
							fmt.Fprintf(&b, "type %s %s\n", s.Name.Name, TypeKey(tn.Type().Underlying()))
							if named, ok := tn.Type().(*types.Named); ok && named.TypeParams().Len() > 0 {
								for i := 0; i < named.TypeParams().Len(); i++ {
									fmt.Fprintf(&b, "  tparam %d %s\n", i, TypeKey(named.TypeParams().At(i).Constraint()))
								}
							}
						}
						entries = append(entries, entry{"type " + s.Name.Name, b.String()})
					}
				}
			case *ast.FuncDecl:
				obj, _ := c.Info.Defs[x.Name].(*types.Func)
				if obj == nil {
					continue
				}
				var b strings.Builder
				name := x.Name.Name
				sig := obj.Type().(*types.Signature)
				if sig.Recv() != nil {
					name = TypeKey(sig.Recv().Type()) + "." + name
				}
				fmt.Fprintf(&b, "func %s %s\n", name, TypeKey(sig))
				if x.Body != nil {
					d.reset()
					d.bindParams(x.Recv)
					d.bindParams(x.Type.Params)
					d.bindParams(x.Type.Results)
					d.block(&b, x.Body.List, 1)
				}
				entries = append(entries, entry{"func " + name, b.String()})
			}
		}
	}
	sort.SliceStable(entries, func(i, j int) bool { return entries[i].key < entries[j].key })
	var out strings.Builder
	for _, e := range entries {
		out.WriteString(e.text)
	}
	return out.String()
}

type dumper struct {
	o      DumpOpts
	c      *Checked
	pkg    *types.Package
	locals map[types.Object]int
}

func (d *dumper) labelName(n string) string {
	if d.o.LabelName != nil {
		return d.o.LabelName(n)
	}
	return n
}

func (d *dumper) reset() { d.locals = map[types.Object]int{} }

func (d *dumper) bindParams(fl *ast.FieldList) {
	if fl == nil {
		return
	}
	for _, f := range fl.List {
		for _, n := range f.Names {
			if o := d.c.Info.Defs[n]; o != nil {
				d.local(o)
			}
		}
	}
}

func (d *dumper) local(o types.Object) int {
	if k, ok := d.locals[o]; ok {
		return k
	}
	k := len(d.locals)
	d.locals[o] = k
	return k
}

func (d *dumper) objKey(o types.Object) string {
	if o == nil {
		return "<nil-obj>"
	}
	if o.Pkg() == nil {
		return "universe." + o.Name()
	}
	if v, ok := o.(*types.Var); ok && v.IsField() {
		return "field." + o.Name()
	}
	if f, ok := o.(*types.Func); ok {
		if sig, _ := f.Type().(*types.Signature); sig != nil && sig.Recv() != nil {
			return "method." + o.Name()
		}
	}
	if o.Parent() == o.Pkg().Scope() || o.Parent() == nil && isPkgLevelFunc(o) {
		return o.Pkg().Path() + "." + o.Name()
	}
	if _, isLabel := o.(*types.Label); isLabel {
		return "label." + o.Name()
	}
	if _, isTN := o.(*types.TypeName); isTN {
		return "localtype." + o.Name()
	}
	return fmt.Sprintf("local#%d", d.local(o))
}

func isPkgLevelFunc(o types.Object) bool {
	f, ok := o.(*types.Func)
	if !ok {
		return false
	}
	sig, _ := f.Type().(*types.Signature)
	return sig != nil && sig.Recv() == nil
}

func (d *dumper) typeOf(e ast.Expr) string {
	tv, ok := d.c.Info.Types[e]
	if !ok {
		return "?"
	}
	return TypeKey(tv.Type)
}

func (d *dumper) exprs(es []ast.Expr) string {
	var parts []string
	for _, e := range es {
		parts = append(parts, d.expr(e))
	}
	return strings.Join(parts, ", ")
}

// expr renders an expression.
func (d *dumper) expr(e ast.Expr) string {
	if e == nil {
		return "<none>"
	}
	e = unparenExpr(e)
	tv, hasTV := d.c.Info.Types[e]
	if hasTV && tv.IsType() {
		return "type(" + TypeKey(tv.Type) + ")"
	}
	if d.o.FoldBoolConsts && hasTV && tv.Value != nil && tv.Value.Kind() == constant.Bool {
		return fmt.Sprintf("universe.%v{%s=%s}", constant.BoolVal(tv.Value), TypeKey(tv.Type), ConstKey(tv.Value))
	}
	body := d.exprBody(e)
	if hasTV && tv.Value != nil {
		// constant: the value and type are what matters; keep the structure too
		return fmt.Sprintf("%s{%s=%s}", body, TypeKey(tv.Type), ConstKey(tv.Value))
	}
	if hasTV && tv.Type != nil {
		if _, isTuple := tv.Type.(*types.Tuple); isTuple || !tv.IsVoid() {
			return body + "{" + TypeKey(tv.Type) + "}"
		}
	}
	return body
}

func unparenExpr(e ast.Expr) ast.Expr {
	for {
		p, ok := e.(*ast.ParenExpr)
		if !ok {
			return e
		}
		e = p.X
	}
}

func (d *dumper) exprBody(e ast.Expr) string {
	info := d.c.Info
	switch x := e.(type) {
	case *ast.BasicLit:
		return "lit"
	case *ast.Ident:
		if x.Name == "_" {
			return "_"
		}
		if o := info.Uses[x]; o != nil {
			if inst, ok := info.Instances[x]; ok { // a generic function used with inferred or explicit type arguments
				return d.objKey(o) + instArgs(inst)
			}
			return d.objKey(o)
		}
		if o := info.Defs[x]; o != nil {
			return "def:" + d.objKey(o)
		}
		return "ident?" + x.Name
	case *ast.BinaryExpr:
		return "(" + d.expr(x.X) + " " + x.Op.String() + " " + d.expr(x.Y) + ")"
	case *ast.UnaryExpr:
		return x.Op.String() + "(" + d.expr(x.X) + ")"
	case *ast.StarExpr:
		return "deref(" + d.expr(x.X) + ")"
	case *ast.CallExpr:
		if tv, ok := info.Types[x.Fun]; ok && tv.IsType() {
			return "conv(" + TypeKey(tv.Type) + ", " + d.exprs(x.Args) + ")"
		}
		s := "call(" + d.expr(x.Fun)
		if len(x.Args) > 0 {
			s += "; " + d.exprs(x.Args)
		}
		if x.Ellipsis != token.NoPos {
			s += "..."
		}
		return s + ")"
	case *ast.SelectorExpr:
		if sel, ok := info.Selections[x]; ok {
			kind := []string{"field", "method", "methodexpr"}[sel.Kind()]
			return fmt.Sprintf("sel:%s(%s .%s %v)", kind, d.expr(x.X), x.Sel.Name, sel.Index())
		}
		if o := info.Uses[x.Sel]; o != nil { // qualified identifier
			return d.objKey(o)
		}
		return "sel?(" + d.expr(x.X) + "." + x.Sel.Name + ")"
	case *ast.IndexExpr:
		if inst, ok := info.Instances[identOf(x.X)]; ok && identOf(x.X) != nil {
			// explicit instantiation: the same rendering as an inferred one (f[int] == f with T=int)
			return d.objKey(info.Uses[identOf(x.X)]) + instArgs(inst)
		}
		return "index(" + d.expr(x.X) + ", " + d.expr(x.Index) + ")"
	case *ast.IndexListExpr:
		if inst, ok := info.Instances[identOf(x.X)]; ok && identOf(x.X) != nil {
			return d.objKey(info.Uses[identOf(x.X)]) + instArgs(inst)
		}
		return "index(" + d.expr(x.X) + ", " + d.exprs(x.Indices) + ")"
	case *ast.SliceExpr:
		return fmt.Sprintf("slice(%s, %s, %s, %s, %v)", d.expr(x.X), d.expr(x.Low), d.expr(x.High), d.expr(x.Max), x.Slice3)
	case *ast.TypeAssertExpr:
		if x.Type == nil {
			return "typeswitchguard(" + d.expr(x.X) + ")"
		}
		return "assert(" + d.expr(x.X) + ", " + d.typeOf(x.Type) + ")"
	case *ast.CompositeLit:
		var parts []string
		for _, el := range x.Elts {
			if kv, ok := el.(*ast.KeyValueExpr); ok {
				if _, isStruct := coreUnder(info.Types[x].Type).(*types.Struct); isStruct {
					parts = append(parts, kv.Key.(*ast.Ident).Name+": "+d.expr(kv.Value))
				} else {
					parts = append(parts, d.expr(kv.Key)+": "+d.expr(kv.Value))
				}
			} else {
				parts = append(parts, d.expr(el))
			}
		}
		return "complit{" + strings.Join(parts, ", ") + "}"
	case *ast.FuncLit:
		var b strings.Builder
		d.bindParams(x.Type.Params)
		d.bindParams(x.Type.Results)
		d.block(&b, x.Body.List, 0)
		return "funclit[" + strings.ReplaceAll(strings.TrimSpace(b.String()), "\n", " | ") + "]"
	case *ast.KeyValueExpr:
		return d.expr(x.Key) + ": " + d.expr(x.Value)
	case *ast.ArrayType, *ast.MapType, *ast.ChanType, *ast.FuncType, *ast.StructType, *ast.InterfaceType, *ast.Ellipsis:
		return "type(" + d.typeOf(e) + ")"
	}
	return fmt.Sprintf("?%T", e)
}

func coreUnder(t types.Type) types.Type {
	if t == nil {
		return nil
	}
	u := t.Underlying()
	if p, ok := u.(*types.Pointer); ok {
		return p.Elem().Underlying()
	}
	return u
}

func identOf(e ast.Expr) *ast.Ident {
	switch x := unparenExpr(e).(type) {
	case *ast.Ident:
		return x
	case *ast.SelectorExpr:
		return x.Sel
	}
	return nil
}

func instArgs(inst types.Instance) string {
	var parts []string
	for i := 0; i < inst.TypeArgs.Len(); i++ {
		parts = append(parts, TypeKey(inst.TypeArgs.At(i)))
	}
	return "[" + strings.Join(parts, ",") + "]"
}

func (d *dumper) block(b *strings.Builder, list []ast.Stmt, ind int) {
	for _, s := range list {
		d.stmt(b, s, ind)
	}
}

func (d *dumper) stmt(b *strings.Builder, s ast.Stmt, ind int) {
	pad := strings.Repeat("  ", ind)
	line := func(format string, a ...any) {
		b.WriteString(pad)
		fmt.Fprintf(b, format, a...)
		b.WriteByte('\n')
	}
	switch x := s.(type) {
	case nil:
	case *ast.ExprStmt:
		line("expr %s", d.expr(x.X))
	case *ast.AssignStmt:
		if x.Tok == token.DEFINE {
			rhs := d.exprs(x.Rhs) // evaluate rhs before the new names come into scope
			var lhs []string
			for _, l := range x.Lhs {
				id := l.(*ast.Ident)
				if o := d.c.Info.Defs[id]; o != nil {
					lhs = append(lhs, fmt.Sprintf("new:%s{%s}", d.objKey(o), TypeKey(o.Type())))
				} else {
					lhs = append(lhs, d.expr(l))
				}
			}
			line("define %s := %s", strings.Join(lhs, ", "), rhs)
		} else {
			line("assign %s %s %s", d.exprs(x.Lhs), x.Tok, d.exprs(x.Rhs))
		}
	case *ast.IncDecStmt:
		line("incdec %s %s", d.expr(x.X), x.Tok)
	case *ast.DeclStmt:
		g := x.Decl.(*ast.GenDecl)
		for _, sp := range g.Specs {
			switch sp := sp.(type) {
			case *ast.ValueSpec:
				vals := d.exprs(sp.Values)
				for _, n := range sp.Names {
					if o := d.c.Info.Defs[n]; o != nil {
						if c, ok := o.(*types.Const); ok {
							line("localconst %s %s = %s", d.objKey(o), TypeKey(o.Type()), ConstKey(c.Val()))
						} else {
							line("localvar %s %s", d.objKey(o), TypeKey(o.Type()))
						}
					} else {
						line("localvar _")
					}
				}
				if g.Tok == token.VAR && len(sp.Values) > 0 {
					line("  init %s", vals)
				}
			case *ast.TypeSpec:
				if o := d.c.Info.Defs[sp.Name]; o != nil {
					line("localtype %s %s", sp.Name.Name, TypeKey(o.Type().Underlying()))
				}
			}
		}
	case *ast.ReturnStmt:
		line("return %s", d.exprs(x.Results))
	case *ast.BlockStmt:
		line("block")
		d.block(b, x.List, ind+1)
	case *ast.IfStmt:
		line("if")
		if x.Init != nil {
			d.stmt(b, x.Init, ind+2)
		}
		line("  cond %s", d.expr(x.Cond))
		line("  then")
		d.block(b, x.Body.List, ind+2)
		if x.Else != nil {
			line("  else")
			if eb, ok := x.Else.(*ast.BlockStmt); ok {
				d.block(b, eb.List, ind+2)
			} else {
				d.stmt(b, x.Else, ind+2)
			}
		}
	case *ast.ForStmt:
		line("for")
		if x.Init != nil {
			line("  init")
			d.stmt(b, x.Init, ind+2)
		}
		if x.Cond != nil {
			line("  cond %s", d.expr(x.Cond))
		}
		if x.Post != nil {
			line("  post")
			d.stmt(b, x.Post, ind+2)
		}
		line("  body")
		d.block(b, x.Body.List, ind+2)
	case *ast.RangeStmt:
		xs := d.expr(x.X)
		kv := func(e ast.Expr) string {
			if e == nil {
				return "<none>"
			}
			if id, ok := e.(*ast.Ident); ok && x.Tok == token.DEFINE {
				if o := d.c.Info.Defs[id]; o != nil {
					return fmt.Sprintf("new:%s{%s}", d.objKey(o), TypeKey(o.Type()))
				}
			}
			return d.expr(e)
		}
		k, v := kv(x.Key), kv(x.Value)
		// `for _ = range x` / `for _, _ = range x` are the same statement as `for range x`
		if k == "_" && (v == "_" || v == "<none>") {
			k, v = "<none>", "<none>"
		} else if v == "_" {
			v = "<none>"
		}
		tok := x.Tok.String()
		if k == "<none>" && v == "<none>" {
			tok = "ILLEGAL"
		}
		line("range %s, %s %s %s", k, v, tok, xs)
		d.block(b, x.Body.List, ind+1)
	case *ast.SwitchStmt:
		line("switch")
		if x.Init != nil {
			d.stmt(b, x.Init, ind+2)
		}
		line("  tag %s", d.expr(x.Tag))
		for _, c := range x.Body.List {
			cc := c.(*ast.CaseClause)
			if cc.List == nil {
				line("  default")
			} else {
				line("  case %s", d.exprs(cc.List))
			}
			d.block(b, cc.Body, ind+2)
		}
	case *ast.TypeSwitchStmt:
		line("typeswitch")
		if x.Init != nil {
			d.stmt(b, x.Init, ind+2)
		}
		switch a := x.Assign.(type) {
		case *ast.AssignStmt:
			line("  bind %s", d.expr(a.Rhs[0]))
		case *ast.ExprStmt:
			line("  nobind %s", d.expr(a.X))
		}
		for _, c := range x.Body.List {
			cc := c.(*ast.CaseClause)
			if cc.List == nil {
				line("  default")
			} else {
				var ts []string
				for _, t := range cc.List {
					if tv, ok := d.c.Info.Types[t]; ok && tv.IsType() {
						ts = append(ts, TypeKey(tv.Type))
					} else {
						ts = append(ts, "nil")
					}
				}
				line("  case %s", strings.Join(ts, ", "))
			}
			if o := d.c.Info.Implicits[cc]; o != nil {
				line("    implicit %s{%s}", d.objKey(o), TypeKey(o.Type()))
			}
			d.block(b, cc.Body, ind+2)
		}
	case *ast.SelectStmt:
		line("select")
		for _, c := range x.Body.List {
			cc := c.(*ast.CommClause)
			if cc.Comm == nil {
				line("  default")
			} else {
				line("  comm")
				d.stmt(b, cc.Comm, ind+2)
			}
			d.block(b, cc.Body, ind+2)
		}
	case *ast.SendStmt:
		line("send %s <- %s", d.expr(x.Chan), d.expr(x.Value))
	case *ast.GoStmt:
		line("go %s", d.expr(x.Call))
	case *ast.DeferStmt:
		line("defer %s", d.expr(x.Call))
	case *ast.LabeledStmt:
		line("label %s", d.labelName(x.Label.Name))
		d.stmt(b, x.Stmt, ind)
	case *ast.BranchStmt:
		l := ""
		if x.Label != nil {
			l = " " + d.labelName(x.Label.Name)
		}
		line("%s%s", x.Tok, l)
	case *ast.EmptyStmt:
		// an empty statement after a label is required syntax; elsewhere it is formatting
	default:
		line("?%T", s)
	}
}
