package main

import (
	"fmt"
	str "strconv"
	"strings"
)

type N int

type S struct {
	a int
	b string
	N
	p *S
}

type I interface {
	M() int
}

type (
	Pair[K comparable, V any] struct {
		Key K
		Val V
	}
	List[T any] []T
	A           = []string
)

const (
	c0 = iota
	c1
	c2     = "x"
	c3, c4 = 1 << iota, iota * 2
)

var (
	g1     int = 3
	g2, g3     = "s", 2.5
	g4     []int
	g5     = map[string]int{"a": 1, "b": 2}
)

func (s S) M() int { return s.a + int(s.N) }

func (s *S) Set(v int) { s.a = v }

func (n N) M() int { return int(n) * 2 }

func Map[T, U any](xs []T, f func(T) U) []U {
	var out []U
	for _, x := range xs {
		out = append(out, f(x))
	}
	return out
}

func Sum[T ~int | ~float64](xs ...T) T {
	var s T
	for _, x := range xs {
		s += x
	}
	return s
}

func div(a, b int) (q int, err error) {
	if b == 0 {
		err = fmt.Errorf("div %d by zero", a)
		return
	}
	return a / b, nil
}

func variadic(pre string, xs ...int) int {
	n := len(pre)
	for i := 0; i < len(xs); i++ {
		n += xs[i]
	}
	return n
}

func main() {
	s := S{a: 1, b: "x"}
	ps := &s
	ps.Set(4)
	var i I = s
	if v, ok := i.(S); ok && v.a > 0 {
		fmt.Println(v.M(), strings.ToUpper(v.b))
	} else if !ok {
		fmt.Println("no")
	} else {
		fmt.Println(str.Itoa(v.a))
	}
	arr := [3]int{1, 2, 3}
	sl := arr[1:2:3]
	sl = append(sl, arr[:]...)
	m := map[string][]int{"k": {1, 2}, "j": nil}
	m["z"] = sl
	delete(m, "j")
	ch := make(chan int, 2)
	done := make(chan struct{})
	go func(n int) {
		defer close(done)
		for k := 0; k < n; k++ {
			ch <- k
		}
	}(2)
	total := 0
outer:
	for {
		select {
		case v, ok := <-ch:
			if !ok {
				break outer
			}
			total += v
		case <-done:
			break outer
		default:
			continue
		}
	}
	switch x := total; {
	case x > 10:
		fmt.Println("big")
		fallthrough
	case x > 5:
		fmt.Println("mid")
	default:
		fmt.Println("small")
	}
	switch y := i.(type) {
	case S, *S:
		_ = y
	case nil:
	case interface{ M() int }:
		_ = y.M()
	}
	q, err := div(7, 2)
	if err != nil {
		panic(err)
	}
	_ = q
	fn := func(a int, b ...string) (r int) {
		r = a + len(b)
		return
	}
	_ = fn(1, "a", "b")
	_ = variadic("p", sl...)
	strs := Map([]int{1, 2}, func(x int) string { return str.Itoa(x) })
	_ = Map[int, string]
	_ = Sum(1.5, 2)
	_ = Sum[int](1, 2, 3)
	p := Pair[string, int]{Key: "a", Val: 1}
	var l List[string] = strs
	_, _ = p, len(l)
	var a A = strs
	for idx, r := range "héllo" {
		_, _ = idx, r
	}
	for k := range m {
		_ = k
	}
	for range 3 {
	}
	x := 10
	x += 2
	x <<= 1
	x++
	pp := &x
	*pp = *pp - 1
	goto end
end:
	fmt.Println(x, a, c0, c1, c2, c3, c4, g1, g2, g3, g4, g5, N(3).M(), S.M(s), (*S).Set)
}
