package drive_test

import (
	"go/ast"
	"go/parser"
	"go/token"
	"os"
	"path/filepath"
	"testing"

	"verif/h/drive"
	"verif/h/oracle"
)

func TestSamples(t *testing.T) {
	drive.DebugStacks = true
	files, _ := filepath.Glob("testdata/*.go")
	for _, fn := range files {
		src, _ := os.ReadFile(fn)
		fset := token.NewFileSet()
		f, err := parser.ParseFile(fset, "a.go", src, parser.SkipObjectResolution)
		if err != nil {
			t.Fatal(err)
		}
		sc := oracle.CheckSources("main", map[string]string{"a.go": string(src)}, oracle.NewImporter())
		if !sc.OK() {
			t.Fatalf("%s: source invalid: %s", fn, sc.ErrText(5))
		}
		for _, xgo := range []bool{false, true} {
			r := drive.Build(fset, []*ast.File{f}, map[string][]byte{"a.go": src}, drive.Options{Importer: oracle.NewImporter(), XGo: xgo})
			if !r.Accepted() {
				t.Fatalf("%s xgo=%v: not accepted: %s\n%s", fn, xgo, r.ErrText(), r.Stack)
			}
			oc := oracle.CheckSources("main", r.Output, oracle.NewImporter())
			if !oc.OK() {
				t.Fatalf("%s xgo=%v: output ill-typed: %s\n%s", fn, xgo, oc.ErrText(5), r.Output[""])
			}
			if testing.Verbose() && !xgo {
				t.Log(r.Output[""])
			}
		}
	}
}
