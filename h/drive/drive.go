// Package drive is a miniature compiler front end: it translates Go syntax (go/ast, produced by
// go/parser from generated source text) into the sequence of gogen builder operations a front end
// such as XGo's cl package issues for it. It resolves names through gogen's own scopes and builds
// types with the go/types constructors, so it needs no type information about the source and can
// drive ill-typed programs too.
package drive

import (
	"fmt"
	"go/ast"
	"go/constant"
	"go/token"
	"go/types"
	"runtime/debug"
	"sort"
	"strconv"
	"strings"
	"time"

	"github.com/goplus/gogen"
)

// Step describes one builder operation as the driver issued it.
type Step struct {
	Name   string
	Delta  int // documented change of the operand stack length; Unknown if data dependent
	Before int
	After  int
}

const Unknown = -1 << 20

// Driver holds the state of one translation.
type Driver struct {
	Pkg  *gogen.Package
	CB   *gogen.CodeBuilder
	Fset *token.FileSet

	// Trace is called after every (sub-)expression has been pushed: e is the source expression, el
	// the element on top of the stack; ref is true for assignment targets (VarRef/MemberRef/...).
	Trace func(e ast.Expr, el *gogen.Element, ref bool)
	// Before is called before, After after every builder operation.
	Before func(name string)
	After  func(s Step)
	// OnStmtStart is called before a statement is translated.
	OnStmtStart func(s ast.Stmt)
	// OnStmt is called after each completed statement (at statement boundaries of a block).
	OnStmt func(s ast.Stmt)
	// OnDecl is called after a declaration introduced names into the current scope.
	OnDecl func(names []*ast.Ident)

	// StmtComments, if set, gives the comment group to attach to a statement (CodeBuilder.SetComments).
	StmtComments map[ast.Stmt]*ast.CommentGroup

	imports map[string]string // file-local import name -> path (current file)
	tparams []map[string]*types.TypeParam
	labels  []map[string][]*gogen.Label // per function body: label name -> labels in definition order
	labelAt []map[*ast.LabeledStmt]*gogen.Label
	Steps   int
	Cur     ast.Node // statement / declaration being translated (for diagnostics of position-less panics)
}

type unsupported string

func unsupportedf(format string, a ...any) { panic(unsupported(fmt.Sprintf(format, a...))) }

func (d *Driver) do(name string, delta int, f func()) {
	before := d.CB.InternalStack().Len()
	if d.Before != nil {
		d.Before(name)
	}
	f()
	d.Steps++
	if d.After != nil {
		d.After(Step{name, delta, before, d.CB.InternalStack().Len()})
	}
}

// ---------------------------------------------------------------------------------------------
// name resolution

func (d *Driver) lookup(name string) types.Object {
	for i := len(d.tparams) - 1; i >= 0; i-- {
		if tp, ok := d.tparams[i][name]; ok {
			// a local declaration may shadow a type parameter
			if _, o := d.CB.Scope().LookupParent(name, token.NoPos); o != nil && o.Parent() != types.Universe && o.Parent() != d.Pkg.Types.Scope() {
				return o
			}
			return tp.Obj()
		}
	}
	if _, o := d.CB.Scope().LookupParent(name, token.NoPos); o != nil && o.Parent() != types.Universe {
		return o
	}
	if o := d.Pkg.Builtin().TryRef(name); o != nil {
		return o
	}
	return types.Universe.Lookup(name)
}

// importOf reports whether id denotes an imported package in the current file (and is not shadowed).
func (d *Driver) importOf(id *ast.Ident) (string, bool) {
	path, ok := d.imports[id.Name]
	if !ok {
		return "", false
	}
	if _, o := d.CB.Scope().LookupParent(id.Name, token.NoPos); o != nil && o.Parent() != types.Universe {
		return "", false
	}
	return path, true
}

func (d *Driver) pkgRef(path string) gogen.PkgRef {
	if path == "unsafe" {
		return d.Pkg.Unsafe()
	}
	return d.Pkg.Import(path)
}

// isTypeName reports whether o names a Go type (gogen's builtin package declares instructions such
// as make/new/len as type names of an internal instruction type; those are values to a front end).
func isTypeName(o types.Object) bool {
	tn, ok := o.(*types.TypeName)
	if !ok {
		return false
	}
	_, instr := tn.Type().(*gogen.TyInstruction)
	return !instr
}

// member looks a name up in an imported package; unsafe.Pointer comes from go/types' unsafe
// package (the builder's own unsafe package only holds the unsafe functions).
func (d *Driver) member(path, name string) types.Object {
	if o := d.pkgRef(path).TryRef(name); o != nil {
		return o
	}
	if path == "unsafe" {
		return types.Unsafe.Scope().Lookup(name)
	}
	return nil
}

func unparen(e ast.Expr) ast.Expr {
	for {
		p, ok := e.(*ast.ParenExpr)
		if !ok {
			return e
		}
		e = p.X
	}
}

// IsType reports whether e is a type expression in the current scope.
func (d *Driver) IsType(e ast.Expr) bool {
	switch t := e.(type) {
	case *ast.Ident:
		return isTypeName(d.lookup(t.Name))
	case *ast.ParenExpr:
		return d.IsType(t.X)
	case *ast.StarExpr:
		return d.IsType(t.X)
	case *ast.ArrayType, *ast.MapType, *ast.ChanType, *ast.FuncType, *ast.StructType, *ast.InterfaceType:
		return true
	case *ast.SelectorExpr:
		if id, ok := t.X.(*ast.Ident); ok {
			if path, ok := d.importOf(id); ok {
				return isTypeName(d.member(path, t.Sel.Name))
			}
		}
	case *ast.IndexExpr:
		return d.IsType(t.X)
	case *ast.IndexListExpr:
		return d.IsType(t.X)
	}
	return false
}

// ---------------------------------------------------------------------------------------------
// types from syntax

func (d *Driver) Typ(e ast.Expr) types.Type {
	switch t := e.(type) {
	case *ast.Ident:
		if tn, ok := d.lookup(t.Name).(*types.TypeName); ok {
			return tn.Type()
		}
		unsupportedf("not a type: %s", t.Name)
	case *ast.ParenExpr:
		return d.Typ(t.X)
	case *ast.StarExpr:
		return types.NewPointer(d.Typ(t.X))
	case *ast.ArrayType:
		if t.Len == nil {
			return types.NewSlice(d.Typ(t.Elt))
		}
		if _, ok := t.Len.(*ast.Ellipsis); ok {
			return types.NewArray(d.Typ(t.Elt), -1)
		}
		return types.NewArray(d.Typ(t.Elt), d.constInt(t.Len))
	case *ast.MapType:
		return types.NewMap(d.Typ(t.Key), d.Typ(t.Value))
	case *ast.ChanType:
		dir := types.SendRecv
		if t.Dir == ast.SEND {
			dir = types.SendOnly
		} else if t.Dir == ast.RECV {
			dir = types.RecvOnly
		}
		return types.NewChan(dir, d.Typ(t.Value))
	case *ast.FuncType:
		return d.Sig(nil, t, nil)
	case *ast.StructType:
		var flds []*types.Var
		var tags []string
		for _, f := range t.Fields.List {
			ft := d.Typ(f.Type)
			tag := ""
			if f.Tag != nil {
				tag, _ = strconv.Unquote(f.Tag.Value)
			}
			if len(f.Names) == 0 {
				flds = append(flds, types.NewField(f.Type.Pos(), d.Pkg.Types, embeddedName(f.Type), ft, true))
				tags = append(tags, tag)
			}
			for _, n := range f.Names {
				flds = append(flds, types.NewField(n.Pos(), d.Pkg.Types, n.Name, ft, false))
				tags = append(tags, tag)
			}
		}
		return types.NewStruct(flds, tags)
	case *ast.InterfaceType:
		var ms []*types.Func
		var embeds []types.Type
		for _, f := range t.Methods.List {
			if len(f.Names) == 0 {
				embeds = append(embeds, d.constraintTerm(f.Type))
				continue
			}
			s := d.Sig(nil, f.Type.(*ast.FuncType), nil)
			ms = append(ms, types.NewFunc(f.Names[0].Pos(), d.Pkg.Types, f.Names[0].Name, s))
		}
		return types.NewInterfaceType(ms, embeds).Complete()
	case *ast.SelectorExpr:
		if id, ok := t.X.(*ast.Ident); ok {
			if path, ok := d.importOf(id); ok {
				if tn, ok := d.member(path, t.Sel.Name).(*types.TypeName); ok {
					return tn.Type()
				}
			}
		}
		unsupportedf("not a type: %v", t.Sel.Name)
	case *ast.IndexExpr:
		return d.instType(t.X, []ast.Expr{t.Index})
	case *ast.IndexListExpr:
		return d.instType(t.X, t.Indices)
	}
	unsupportedf("Typ: %T", e)
	return nil
}

func (d *Driver) instType(x ast.Expr, idx []ast.Expr) types.Type {
	g := d.Typ(x)
	args := make([]types.Type, len(idx))
	for i, a := range idx {
		args[i] = d.Typ(a)
	}
	return d.Pkg.Instantiate(g, args, x)
}

// constraintTerm handles embedded elements of interfaces: types, ~T and unions.
func (d *Driver) constraintTerm(e ast.Expr) types.Type {
	var terms []*types.Term
	var walk func(e ast.Expr)
	union := false
	walk = func(e ast.Expr) {
		switch t := e.(type) {
		case *ast.BinaryExpr:
			if t.Op == token.OR {
				union = true
				walk(t.X)
				walk(t.Y)
				return
			}
		case *ast.UnaryExpr:
			if t.Op == token.TILDE {
				union = true
				terms = append(terms, types.NewTerm(true, d.Typ(t.X)))
				return
			}
		}
		terms = append(terms, types.NewTerm(false, d.Typ(e)))
	}
	walk(e)
	if !union {
		return terms[0].Type()
	}
	return types.NewUnion(terms)
}

func embeddedName(e ast.Expr) string {
	switch x := e.(type) {
	case *ast.Ident:
		return x.Name
	case *ast.StarExpr:
		return embeddedName(x.X)
	case *ast.SelectorExpr:
		return x.Sel.Name
	case *ast.IndexExpr:
		return embeddedName(x.X)
	case *ast.IndexListExpr:
		return embeddedName(x.X)
	case *ast.ParenExpr:
		return embeddedName(x.X)
	}
	return "?"
}

func (d *Driver) constInt(e ast.Expr) int64 {
	cb := d.Pkg.ConstStart()
	d.exprIn(cb, e)
	el := cb.EndConst()
	if el.CVal == nil {
		panic(fmt.Errorf("array length %s is not a constant", types.ExprString(e)))
	}
	v, ok := constant.Int64Val(constant.ToInt(el.CVal))
	if !ok {
		panic(fmt.Errorf("array length %s is not an integer constant", types.ExprString(e)))
	}
	return v
}

// exprIn compiles e on a different builder (constant evaluation).
func (d *Driver) exprIn(cb *gogen.CodeBuilder, e ast.Expr) {
	old, oa, ot, ob := d.CB, d.After, d.Trace, d.Before
	d.CB, d.After, d.Trace, d.Before = cb, nil, nil, nil
	defer func() { d.CB, d.After, d.Trace, d.Before = old, oa, ot, ob }()
	d.expr(e)
}

func (d *Driver) tuple(fl *ast.FieldList) (*types.Tuple, bool) {
	if fl == nil {
		return nil, false
	}
	var vars []*types.Var
	variadic := false
	for _, f := range fl.List {
		var t types.Type
		if el, ok := f.Type.(*ast.Ellipsis); ok {
			t = types.NewSlice(d.Typ(el.Elt))
			variadic = true
		} else {
			t = d.Typ(f.Type)
		}
		if len(f.Names) == 0 {
			vars = append(vars, types.NewParam(f.Type.Pos(), d.Pkg.Types, "", t))
		}
		for _, n := range f.Names {
			vars = append(vars, types.NewParam(n.Pos(), d.Pkg.Types, n.Name, t))
		}
	}
	return types.NewTuple(vars...), variadic
}

// Sig builds a signature; tparams (if any) must already be pushed on d.tparams.
func (d *Driver) Sig(recv *types.Var, t *ast.FuncType, tparams []*types.TypeParam) *types.Signature {
	p, v := d.tuple(t.Params)
	r, _ := d.tuple(t.Results)
	return types.NewSignatureType(recv, nil, tparams, p, r, v)
}

// typeParams declares the type parameters of a field list and pushes them as a resolution frame.
func (d *Driver) pushTypeParams(fl *ast.FieldList) []*types.TypeParam {
	frame := map[string]*types.TypeParam{}
	d.tparams = append(d.tparams, frame)
	if fl == nil {
		return nil
	}
	var tps []*types.TypeParam
	var cons []ast.Expr
	for _, f := range fl.List {
		for _, n := range f.Names {
			tn := types.NewTypeName(n.Pos(), d.Pkg.Types, n.Name, nil)
			tp := types.NewTypeParam(tn, nil)
			frame[n.Name] = tp
			tps = append(tps, tp)
			cons = append(cons, f.Type)
		}
	}
	for i, tp := range tps {
		c := d.constraintTerm(cons[i])
		if _, ok := c.Underlying().(*types.Interface); !ok {
			c = types.NewInterfaceType(nil, []types.Type{c}).Complete()
		}
		if _, isUnion := c.(*types.Union); isUnion {
			c = types.NewInterfaceType(nil, []types.Type{c}).Complete()
		}
		tp.SetConstraint(c)
	}
	return tps
}

func (d *Driver) popTypeParams() { d.tparams = d.tparams[:len(d.tparams)-1] }

// ---------------------------------------------------------------------------------------------
// expressions

func (d *Driver) traced(e ast.Expr, ref bool) {
	if d.Trace != nil {
		d.Trace(e, d.CB.Get(-1), ref)
	}
}

func (d *Driver) expr(e ast.Expr) { d.exprLhs(e, 0) }

func (d *Driver) exprLhs(e ast.Expr, lhs int) {
	d.expr0(e, lhs)
	d.traced(e, false)
}

func (d *Driver) typExpr(e ast.Expr) {
	t := d.Typ(e)
	d.do("Typ", +1, func() { d.CB.Typ(t, e) })
}

func (d *Driver) expr0(e ast.Expr, lhs int) {
	cb := d.CB
	switch v := e.(type) {
	case *ast.BasicLit:
		d.do("Val", +1, func() { cb.Val(v, v) })
	case *ast.Ident:
		if v.Name == "_" {
			panic(fmt.Errorf("cannot use _ as value"))
		}
		o := d.lookup(v.Name)
		if o == nil {
			panic(fmt.Errorf("undefined: %s", v.Name))
		}
		if o == types.Universe.Lookup("nil") {
			d.do("Val", +1, func() { cb.Val(nil, v) })
			return
		}
		if isTypeName(o) {
			d.do("Typ", +1, func() { cb.Typ(o.Type(), v) })
			return
		}
		d.do("Val", +1, func() { cb.Val(o, v) })
	case *ast.ParenExpr:
		d.expr0(v.X, lhs)
	case *ast.BinaryExpr:
		d.expr(v.X)
		d.expr(v.Y)
		d.do("BinaryOp", -1, func() { cb.BinaryOp(v.Op, v) })
	case *ast.UnaryExpr:
		if v.Op == token.AND {
			if _, ok := unparen(v.X).(*ast.CompositeLit); !ok {
				d.ref(v.X)
				d.do("UnaryOp", 0, func() { cb.UnaryOp(v.Op, v) })
				return
			}
		}
		d.expr(v.X)
		if v.Op == token.ARROW {
			d.do("UnaryOpEx", 0, func() { cb.UnaryOpEx(v.Op, lhs, v) })
		} else {
			d.do("UnaryOp", 0, func() { cb.UnaryOp(v.Op, v) })
		}
	case *ast.StarExpr:
		if d.IsType(v.X) {
			d.typExpr(v)
			return
		}
		d.expr(v.X)
		d.do("Star", 0, func() { cb.Star(v) })
	case *ast.CallExpr:
		d.call(v, lhs)
	case *ast.SelectorExpr:
		if id, ok := v.X.(*ast.Ident); ok {
			if path, ok := d.importOf(id); ok {
				o := d.member(path, v.Sel.Name)
				if o == nil {
					panic(fmt.Errorf("undefined: %s.%s", id.Name, v.Sel.Name))
				}
				if isTypeName(o) {
					d.do("Typ", +1, func() { cb.Typ(o.Type(), v) })
				} else {
					d.do("Val", +1, func() { cb.Val(o, v) })
				}
				return
			}
		}
		if d.IsType(v.X) {
			d.typExpr(v.X)
		} else {
			d.expr(v.X)
		}
		d.do("MemberVal", 0, func() { cb.MemberVal(v.Sel.Name, lhs, v) })
	case *ast.IndexExpr:
		d.index(v, v.X, []ast.Expr{v.Index}, lhs)
	case *ast.IndexListExpr:
		d.index(v, v.X, v.Indices, lhs)
	case *ast.SliceExpr:
		d.expr(v.X)
		for _, x := range []ast.Expr{v.Low, v.High} {
			if x == nil {
				d.do("None", +1, func() { cb.None() })
			} else {
				d.expr(x)
			}
		}
		if v.Slice3 {
			d.expr(v.Max)
			d.do("Slice", -3, func() { cb.Slice(true, v) })
		} else {
			d.do("Slice", -2, func() { cb.Slice(false, v) })
		}
	case *ast.TypeAssertExpr:
		d.expr(v.X)
		t := d.Typ(v.Type)
		d.do("TypeAssert", 0, func() { cb.TypeAssert(t, lhs, v) })
	case *ast.CompositeLit:
		d.complit(v, nil)
	case *ast.FuncLit:
		d.funcLit(v)
	case *ast.ArrayType, *ast.MapType, *ast.ChanType, *ast.FuncType, *ast.StructType, *ast.InterfaceType:
		d.typExpr(v)
	case *ast.KeyValueExpr:
		panic(fmt.Errorf("unexpected key:value expression"))
	default:
		unsupportedf("expr: %T", e)
	}
}

func (d *Driver) index(v ast.Expr, x ast.Expr, idx []ast.Expr, lhs int) {
	cb := d.CB
	if d.IsType(v) {
		d.typExpr(v)
		return
	}
	d.expr(x)
	for _, i := range idx {
		if d.IsType(i) {
			d.typExpr(i)
		} else {
			d.expr(i)
		}
	}
	d.do("Index", -len(idx), func() { cb.Index(len(idx), lhs, v) })
}

func (d *Driver) funcLit(v *ast.FuncLit) {
	cb := d.CB
	s := d.Sig(nil, v.Type, nil)
	var fn *gogen.Func
	d.do("NewClosureWith", 0, func() { fn = cb.NewClosureWith(s) })
	d.do("BodyStart", 0, func() { fn.BodyStart(d.Pkg, v) })
	d.body(v.Body)
	d.do("End(closure)", +1, func() { cb.End(v) })
}

var typeArgBuiltins = map[string]bool{"make": true, "new": true}

func (d *Driver) call(v *ast.CallExpr, lhs int) {
	cb := d.CB
	if d.IsType(v.Fun) {
		d.typExpr(v.Fun)
	} else {
		d.expr(v.Fun)
	}
	for i, a := range v.Args {
		if i == 0 {
			if id, ok := unparen(v.Fun).(*ast.Ident); ok && typeArgBuiltins[id.Name] && d.IsType(a) {
				if !isTypeName(d.lookup(id.Name)) {
					d.typExpr(a)
					continue
				}
			}
		}
		if d.IsType(a) {
			d.typExpr(a) // ill-typed program: type used as argument; the builder must report it
		} else {
			d.expr(a)
		}
	}
	flags := gogen.InstrFlags(0)
	if v.Ellipsis != token.NoPos {
		flags = gogen.InstrFlagEllipsis
	}
	d.do("CallWith", -len(v.Args), func() { cb.CallWith(len(v.Args), lhs, flags, v) })
}

func (d *Driver) complit(v *ast.CompositeLit, hint types.Type) {
	cb := d.CB
	var t types.Type
	if v.Type != nil {
		if at, ok := v.Type.(*ast.ArrayType); ok {
			if _, ok := at.Len.(*ast.Ellipsis); ok {
				t = types.NewArray(d.Typ(at.Elt), -1)
			}
		}
		if t == nil {
			t = d.Typ(v.Type)
		}
	} else {
		t = hint
	}
	if t == nil {
		panic(fmt.Errorf("missing type in composite literal"))
	}
	u := t.Underlying()
	if tp, ok := u.(*types.Interface); ok && tp.IsImplicit() || isTypeParam(t) {
		if ct := coreType(t); ct != nil {
			u = ct
		}
	}
	if p, ok := u.(*types.Pointer); ok && v.Type == nil {
		d.complit(v, p.Elem())
		d.do("UnaryOp", 0, func() { cb.UnaryOp(token.AND) })
		return
	}
	switch ut := u.(type) {
	case *types.Struct:
		kv := len(v.Elts) > 0
		for _, el := range v.Elts {
			if _, ok := el.(*ast.KeyValueExpr); !ok {
				kv = false
			}
		}
		if kv {
			for _, el := range v.Elts {
				k := el.(*ast.KeyValueExpr)
				id, ok := k.Key.(*ast.Ident)
				if !ok {
					panic(fmt.Errorf("invalid field name %s in struct literal", types.ExprString(k.Key)))
				}
				idx := cb.LookupField(ut, id.Name)
				if idx < 0 {
					panic(fmt.Errorf("unknown field %s in struct literal", id.Name))
				}
				d.do("Val", +1, func() { cb.Val(idx) })
				d.elt(k.Value, ut.Field(idx).Type())
			}
			d.do("StructLit", 1-2*len(v.Elts), func() { cb.StructLit(t, 2*len(v.Elts), true, v) })
		} else {
			for i, el := range v.Elts {
				if _, ok := el.(*ast.KeyValueExpr); ok {
					panic(fmt.Errorf("mixture of field:value and value elements in struct literal"))
				}
				var ft types.Type
				if i < ut.NumFields() {
					ft = ut.Field(i).Type()
				}
				d.elt(el, ft)
			}
			d.do("StructLit", 1-len(v.Elts), func() { cb.StructLit(t, len(v.Elts), false, v) })
		}
	case *types.Slice, *types.Array:
		var et types.Type
		if s, ok := ut.(*types.Slice); ok {
			et = s.Elem()
		} else {
			et = ut.(*types.Array).Elem()
		}
		kv := false
		for _, el := range v.Elts {
			if _, ok := el.(*ast.KeyValueExpr); ok {
				kv = true
			}
		}
		n := 0
		for _, el := range v.Elts {
			if k, ok := el.(*ast.KeyValueExpr); ok {
				d.expr(k.Key)
				d.elt(k.Value, et)
				n += 2
			} else {
				if kv {
					d.do("None", +1, func() { cb.None() })
					n++
				}
				d.elt(el, et)
				n++
			}
		}
		if _, ok := ut.(*types.Slice); ok {
			d.do("SliceLitEx", 1-n, func() { cb.SliceLitEx(t, n, kv, v) })
		} else {
			d.do("ArrayLitEx", 1-n, func() { cb.ArrayLitEx(t, n, kv, v) })
		}
	case *types.Map:
		for _, el := range v.Elts {
			k, ok := el.(*ast.KeyValueExpr)
			if !ok {
				panic(fmt.Errorf("missing key in map literal"))
			}
			d.elt(k.Key, ut.Key())
			d.elt(k.Value, ut.Elem())
		}
		d.do("MapLit", 1-2*len(v.Elts), func() { cb.MapLit(t, 2*len(v.Elts), v) })
	default:
		panic(fmt.Errorf("invalid composite literal type %v", t))
	}
	d.traced(v, false)
}

func isTypeParam(t types.Type) bool { _, ok := types.Unalias(t).(*types.TypeParam); return ok }

func coreType(t types.Type) types.Type {
	tp, ok := types.Unalias(t).(*types.TypeParam)
	if !ok {
		return nil
	}
	iface, _ := tp.Constraint().Underlying().(*types.Interface)
	if iface == nil {
		return nil
	}
	var core types.Type
	for i := 0; i < iface.NumEmbeddeds(); i++ {
		switch e := iface.EmbeddedType(i).(type) {
		case *types.Union:
			for j := 0; j < e.Len(); j++ {
				u := e.Term(j).Type().Underlying()
				if core == nil {
					core = u
				} else if !types.Identical(core, u) {
					return nil
				}
			}
		default:
			core = e.Underlying()
		}
	}
	return core
}

func (d *Driver) elt(e ast.Expr, hint types.Type) {
	if c, ok := e.(*ast.CompositeLit); ok && c.Type == nil {
		d.complit(c, hint)
		return
	}
	d.expr(e)
}

// ref pushes an assignment target.
func (d *Driver) ref(e ast.Expr) {
	cb := d.CB
	switch v := unparen(e).(type) {
	case *ast.Ident:
		if v.Name == "_" {
			d.do("VarRef", +1, func() { cb.VarRef(nil) })
			return
		}
		o := d.lookup(v.Name)
		if o == nil {
			panic(fmt.Errorf("undefined: %s", v.Name))
		}
		d.do("VarRef", +1, func() { cb.VarRef(o, v) })
	case *ast.SelectorExpr:
		if id, ok := v.X.(*ast.Ident); ok {
			if path, ok := d.importOf(id); ok {
				o := d.member(path, v.Sel.Name)
				if o == nil {
					panic(fmt.Errorf("undefined: %s.%s", id.Name, v.Sel.Name))
				}
				d.do("VarRef", +1, func() { cb.VarRef(o, v) })
				d.traced(e, true)
				return
			}
		}
		d.expr(v.X)
		d.do("MemberRef", 0, func() { cb.MemberRef(v.Sel.Name, v) })
	case *ast.IndexExpr:
		d.expr(v.X)
		d.expr(v.Index)
		d.do("IndexRef", -1, func() { cb.IndexRef(1, v) })
	case *ast.StarExpr:
		d.expr(v.X)
		d.do("ElemRef", 0, func() { cb.ElemRef(v) })
	default:
		panic(fmt.Errorf("cannot assign to %s", types.ExprString(e)))
	}
	d.traced(e, true)
}

// ---------------------------------------------------------------------------------------------
// statements

func (d *Driver) stmts(list []ast.Stmt) {
	for _, s := range list {
		d.stmt(s)
	}
}

func (d *Driver) stmt(s ast.Stmt) {
	d.Cur = s
	if d.OnStmtStart != nil {
		d.OnStmtStart(s)
	}
	if cg := d.StmtComments[s]; cg != nil {
		d.do("SetComments", 0, func() { d.CB.SetComments(cg, true) })
	}
	d.stmt0(s)
	if d.OnStmt != nil {
		d.OnStmt(s)
	}
}

func (d *Driver) multi(lhsN int, rhs []ast.Expr) {
	for _, r := range rhs {
		if len(rhs) == 1 && lhsN == 2 {
			d.exprLhs(r, 2)
		} else {
			d.expr(r)
		}
	}
}

func (d *Driver) stmt0(s ast.Stmt) {
	cb := d.CB
	switch v := s.(type) {
	case *ast.ExprStmt:
		d.expr(v.X)
		d.do("EndStmt", Unknown, func() { cb.EndStmt() })
	case *ast.AssignStmt:
		switch v.Tok {
		case token.DEFINE:
			names := make([]string, len(v.Lhs))
			var ids []*ast.Ident
			for i, l := range v.Lhs {
				id, ok := l.(*ast.Ident)
				if !ok {
					panic(fmt.Errorf("non-name %s on left side of :=", types.ExprString(l)))
				}
				names[i] = id.Name
				ids = append(ids, id)
			}
			d.do("DefineVarStart", 0, func() { cb.DefineVarStart(v.Pos(), names...) })
			d.multi(len(v.Lhs), v.Rhs)
			d.do("EndInit", -len(v.Rhs), func() { cb.EndInit(len(v.Rhs)) })
			if d.OnDecl != nil {
				d.OnDecl(ids)
			}
		case token.ASSIGN:
			for _, l := range v.Lhs {
				d.ref(l)
			}
			d.multi(len(v.Lhs), v.Rhs)
			d.do("AssignWith", -len(v.Lhs)-len(v.Rhs), func() { cb.AssignWith(len(v.Lhs), len(v.Rhs), v) })
		default:
			if len(v.Lhs) != 1 || len(v.Rhs) != 1 {
				panic(fmt.Errorf("assignment operation %s requires single-valued expressions", v.Tok))
			}
			d.ref(v.Lhs[0])
			d.expr(v.Rhs[0])
			op := assignOps[v.Tok]
			d.do("AssignOp", -2, func() { cb.AssignOp(op, v) })
		}
	case *ast.IncDecStmt:
		d.ref(v.X)
		d.do("IncDec", -1, func() { cb.IncDec(v.Tok, v) })
	case *ast.DeclStmt:
		d.genDecl(v.Decl.(*ast.GenDecl), false)
	case *ast.ReturnStmt:
		for _, r := range v.Results {
			d.expr(r)
		}
		d.do("Return", -len(v.Results), func() { cb.Return(len(v.Results), v) })
	case *ast.BlockStmt:
		d.do("Block", 0, func() { cb.Block(v) })
		d.stmts(v.List)
		d.do("End(block)", 0, func() { cb.End(v) })
	case *ast.IfStmt:
		d.do("If", 0, func() { cb.If(v) })
		if v.Init != nil {
			d.stmt(v.Init)
		}
		d.expr(v.Cond)
		d.do("Then", -1, func() { cb.Then(v.Body) })
		d.stmts(v.Body.List)
		if v.Else != nil {
			d.do("Else", 0, func() { cb.Else(v.Else) })
			if b, ok := v.Else.(*ast.BlockStmt); ok {
				d.stmts(b.List)
			} else {
				d.stmt(v.Else)
			}
		}
		d.do("End(if)", 0, func() { cb.End(v) })
	case *ast.ForStmt:
		d.do("For", 0, func() { cb.For(v) })
		if v.Init != nil {
			d.stmt(v.Init)
		}
		if v.Cond != nil {
			d.expr(v.Cond)
		} else {
			d.do("None", +1, func() { cb.None() })
		}
		d.do("Then", -1, func() { cb.Then(v.Body) })
		d.stmts(v.Body.List)
		if v.Post != nil {
			d.do("Post", 0, func() { cb.Post() })
			d.stmt(v.Post)
		}
		d.do("End(for)", 0, func() { cb.End(v) })
	case *ast.SendStmt:
		d.expr(v.Chan)
		d.expr(v.Value)
		d.do("Send", -2, func() { cb.Send() })
	case *ast.SwitchStmt:
		d.do("Switch", 0, func() { cb.Switch(v) })
		if v.Init != nil {
			d.stmt(v.Init)
		}
		if v.Tag != nil {
			d.expr(v.Tag)
		} else {
			d.do("None", +1, func() { cb.None() })
		}
		d.do("Then(switch)", -1, func() { cb.Then(v.Body) })
		for _, c := range v.Body.List {
			cc := c.(*ast.CaseClause)
			d.do("Case", 0, func() { cb.Case(cc) })
			for _, x := range cc.List {
				d.expr(x)
			}
			d.do("Then", -len(cc.List), func() { cb.Then(cc) })
			d.stmts(cc.Body)
			d.do("End(case)", 0, func() { cb.End(cc) })
		}
		d.do("End(switch)", 0, func() { cb.End(v) })
	case *ast.TypeSwitchStmt:
		name := ""
		var x ast.Expr
		var id *ast.Ident
		switch a := v.Assign.(type) {
		case *ast.AssignStmt:
			id = a.Lhs[0].(*ast.Ident)
			name = id.Name
			x = a.Rhs[0].(*ast.TypeAssertExpr).X
		case *ast.ExprStmt:
			x = a.X.(*ast.TypeAssertExpr).X
		}
		d.do("TypeSwitch", 0, func() { cb.TypeSwitch(name, v) })
		if v.Init != nil {
			d.stmt(v.Init)
		}
		d.expr(x)
		d.do("TypeAssertThen", Unknown, func() { cb.TypeAssertThen() })
		for _, c := range v.Body.List {
			cc := c.(*ast.CaseClause)
			d.do("TypeCase", 0, func() { cb.TypeCase(cc) })
			for _, t := range cc.List {
				if id, ok := unparen(t).(*ast.Ident); ok && id.Name == "nil" && d.lookup("nil") == types.Universe.Lookup("nil") {
					d.do("Val", +1, func() { cb.Val(nil, t) })
				} else {
					d.typExpr(t)
				}
			}
			d.do("Then", -len(cc.List), func() { cb.Then(cc) })
			if id != nil && d.OnDecl != nil {
				d.OnDecl([]*ast.Ident{id})
			}
			d.stmts(cc.Body)
			d.do("End(typecase)", 0, func() { cb.End(cc) })
		}
		d.do("End(typeswitch)", Unknown, func() { cb.End(v) })
	case *ast.SelectStmt:
		d.do("Select", 0, func() { cb.Select(v) })
		for _, c := range v.Body.List {
			cc := c.(*ast.CommClause)
			d.do("CommCase", 0, func() { cb.CommCase(cc) })
			if cc.Comm != nil {
				d.stmt(cc.Comm)
			}
			d.do("Then", 0, func() { cb.Then(cc) })
			d.stmts(cc.Body)
			d.do("End(commcase)", 0, func() { cb.End(cc) })
		}
		d.do("End(select)", 0, func() { cb.End(v) })
	case *ast.RangeStmt:
		var ids []*ast.Ident
		if v.Tok == token.DEFINE {
			var names []string
			for _, kx := range []ast.Expr{v.Key, v.Value} {
				if kx != nil {
					id, ok := kx.(*ast.Ident)
					if !ok {
						panic(fmt.Errorf("non-name %s on left side of :=", types.ExprString(kx)))
					}
					names = append(names, id.Name)
					ids = append(ids, id)
				}
			}
			d.do("ForRangeEx", 0, func() { cb.ForRangeEx(names, v) })
			d.expr(v.X)
			d.do("RangeAssignThen", -1, func() { cb.RangeAssignThen(v.Pos()) })
		} else {
			d.do("ForRangeEx", 0, func() { cb.ForRangeEx(nil, v) })
			n := 1
			if v.Key != nil {
				d.ref(v.Key)
				n++
			}
			if v.Value != nil {
				d.ref(v.Value)
				n++
			}
			d.expr(v.X)
			d.do("RangeAssignThen", -n, func() { cb.RangeAssignThen(v.Pos()) })
		}
		if d.OnDecl != nil && len(ids) > 0 {
			d.OnDecl(ids)
		}
		d.stmts(v.Body.List)
		d.do("End(range)", 0, func() { cb.End(v) })
	case *ast.LabeledStmt:
		if l := d.labelAt[len(d.labelAt)-1][v]; l != nil {
			d.do("Label", 0, func() { cb.Label(l) })
		}
		d.stmt0(v.Stmt)
	case *ast.BranchStmt:
		var l *gogen.Label
		if v.Label != nil {
			ls := d.labels[len(d.labels)-1][v.Label.Name]
			if len(ls) == 0 {
				panic(fmt.Errorf("label %s not defined", v.Label.Name))
			}
			l = ls[0]
		}
		switch v.Tok {
		case token.BREAK:
			d.do("Break", 0, func() { cb.Break(l) })
		case token.CONTINUE:
			d.do("Continue", 0, func() { cb.Continue(l) })
		case token.GOTO:
			d.do("Goto", 0, func() { cb.Goto(l) })
		case token.FALLTHROUGH:
			d.do("Fallthrough", 0, func() { cb.Fallthrough() })
		}
	case *ast.GoStmt:
		d.expr(v.Call)
		d.do("Go", -1, func() { cb.Go() })
	case *ast.DeferStmt:
		d.expr(v.Call)
		d.do("Defer", -1, func() { cb.Defer() })
	case *ast.EmptyStmt:
	default:
		unsupportedf("stmt: %T", s)
	}
}

var assignOps = map[token.Token]token.Token{
	token.ADD_ASSIGN: token.ADD_ASSIGN, token.SUB_ASSIGN: token.SUB_ASSIGN, token.MUL_ASSIGN: token.MUL_ASSIGN,
	token.QUO_ASSIGN: token.QUO_ASSIGN, token.REM_ASSIGN: token.REM_ASSIGN, token.AND_ASSIGN: token.AND_ASSIGN,
	token.OR_ASSIGN: token.OR_ASSIGN, token.XOR_ASSIGN: token.XOR_ASSIGN, token.SHL_ASSIGN: token.SHL_ASSIGN,
	token.SHR_ASSIGN: token.SHR_ASSIGN, token.AND_NOT_ASSIGN: token.AND_NOT_ASSIGN,
}

// body translates a function body: labels are declared first (once per definition, in source
// order, not descending into function literals), so forward gotos resolve and a duplicate
// definition reaches the builder as a second NewLabel.
func (d *Driver) body(b *ast.BlockStmt) {
	names := map[string][]*gogen.Label{}
	at := map[*ast.LabeledStmt]*gogen.Label{}
	var defs []*ast.LabeledStmt
	ast.Inspect(b, func(n ast.Node) bool {
		switch x := n.(type) {
		case *ast.FuncLit:
			return false
		case *ast.LabeledStmt:
			defs = append(defs, x)
		}
		return true
	})
	for _, ls := range defs {
		var l *gogen.Label
		d.do("NewLabel", 0, func() { l = d.CB.NewLabel(ls.Label.Pos(), ls.Label.End(), ls.Label.Name) })
		if l != nil {
			names[ls.Label.Name] = append(names[ls.Label.Name], l)
			at[ls] = l
		}
	}
	d.labels = append(d.labels, names)
	d.labelAt = append(d.labelAt, at)
	d.stmts(b.List)
	d.labels = d.labels[:len(d.labels)-1]
	d.labelAt = d.labelAt[:len(d.labelAt)-1]
}

// ---------------------------------------------------------------------------------------------
// declarations

func (d *Driver) genDecl(g *ast.GenDecl, pkgLevel bool) {
	if pkgLevel {
		d.Cur = g
	}
	cb := d.CB
	scope := cb.Scope()
	switch g.Tok {
	case token.VAR:
		var defs *gogen.VarDefs
		d.do("NewVarDefs", 0, func() { defs = d.Pkg.NewVarDefs(scope) })
		for _, sp := range g.Specs {
			vs := sp.(*ast.ValueSpec)
			names := identNames(vs.Names)
			var t types.Type
			if vs.Type != nil {
				t = d.Typ(vs.Type)
			}
			if len(vs.Values) == 0 {
				d.do("VarDefs.New", 0, func() { defs.New(vs.Pos(), t, names...) })
			} else {
				d.do("VarDefs.NewAndInit", 0, func() {
					defs.NewAndInit(func(cb *gogen.CodeBuilder) int {
						for _, r := range vs.Values {
							if c, ok := r.(*ast.CompositeLit); ok && c.Type == nil && t != nil {
								d.complit(c, t)
							} else if len(vs.Values) == 1 && len(names) == 2 {
								d.exprLhs(r, 2)
							} else {
								d.expr(r)
							}
						}
						return len(vs.Values)
					}, vs.Pos(), t, names...)
				})
			}
			if d.OnDecl != nil {
				d.OnDecl(vs.Names)
			}
		}
	case token.CONST:
		var defs *gogen.ConstDefs
		d.do("NewConstDefs", 0, func() { defs = d.Pkg.NewConstDefs(scope) })
		for iotav, sp := range g.Specs {
			vs := sp.(*ast.ValueSpec)
			names := identNames(vs.Names)
			if len(vs.Values) == 0 && vs.Type == nil && iotav > 0 {
				d.do("ConstDefs.Next", 0, func() { defs.Next(iotav, vs.Pos(), names...) })
			} else {
				var t types.Type
				if vs.Type != nil {
					t = d.Typ(vs.Type)
				}
				vals := vs.Values
				d.do("ConstDefs.New", 0, func() {
					defs.New(func(cb *gogen.CodeBuilder) int {
						for _, r := range vals {
							d.expr(r)
						}
						return len(vals)
					}, iotav, vs.Pos(), t, names...)
				})
			}
			if d.OnDecl != nil {
				d.OnDecl(vs.Names)
			}
		}
	case token.TYPE:
		var defs *gogen.TypeDefs
		if pkgLevel {
			d.do("NewTypeDefs", 0, func() { defs = d.Pkg.NewTypeDefs() })
		} else {
			d.do("NewTypeDefs", 0, func() { defs = cb.NewTypeDefs() })
		}
		d.typeSpecs(defs, g.Specs)
		d.do("TypeDefs.Complete", 0, func() { defs.Complete() })
	}
}

func identNames(ids []*ast.Ident) []string {
	names := make([]string, len(ids))
	for i, n := range ids {
		names[i] = n.Name
	}
	return names
}

func (d *Driver) typeSpecs(defs *gogen.TypeDefs, specs []ast.Spec) {
	decls := map[*ast.TypeSpec]*gogen.TypeDecl{}
	for _, sp := range specs {
		ts := sp.(*ast.TypeSpec)
		if ts.Assign == token.NoPos {
			d.do("NewType", 0, func() { decls[ts] = defs.NewType(ts.Name.Name, ts) })
		}
	}
	for _, sp := range specs {
		ts := sp.(*ast.TypeSpec)
		if ts.Assign != token.NoPos {
			t := d.Typ(ts.Type)
			d.do("AliasType", 0, func() { defs.AliasType(ts.Name.Name, t, ts) })
			continue
		}
		tps := d.pushTypeParams(ts.TypeParams)
		t := d.Typ(ts.Type)
		d.popTypeParams()
		d.do("InitType", 0, func() { decls[ts].InitType(d.Pkg, t, tps...) })
	}
}

// recvInfo resolves a method receiver type expression: T, *T, T[A, B], *T[A, B].
func (d *Driver) recv(fd *ast.FuncDecl) (*types.Var, func()) {
	r := fd.Recv.List[0]
	name := ""
	if len(r.Names) > 0 {
		name = r.Names[0].Name
	}
	te := r.Type
	ptr := false
	if s, ok := unparen(te).(*ast.StarExpr); ok {
		ptr = true
		te = s.X
	}
	var tparamIdents []ast.Expr
	switch x := unparen(te).(type) {
	case *ast.IndexExpr:
		te, tparamIdents = x.X, []ast.Expr{x.Index}
	case *ast.IndexListExpr:
		te, tparamIdents = x.X, x.Indices
	}
	base := d.Typ(te)
	pop := func() {}
	if len(tparamIdents) > 0 {
		// gogen adds the method to the receiver's *types.Named, which go/types forbids for an
		// instantiated type: methods of generic types are outside the supported construct set.
		unsupportedf("method on generic type")
		named, ok := base.(*types.Named)
		if !ok {
			unsupportedf("generic receiver base %T", base)
		}
		frame := map[string]*types.TypeParam{}
		// receiver type parameters: fresh ones named as written, bound to the declared constraints
		var tps []*types.TypeParam
		var targs []types.Type
		for i, e := range tparamIdents {
			id := e.(*ast.Ident)
			orig := named.TypeParams().At(i)
			tp := types.NewTypeParam(types.NewTypeName(id.Pos(), d.Pkg.Types, id.Name, nil), orig.Constraint())
			frame[id.Name] = tp
			tps = append(tps, tp)
			targs = append(targs, tp)
		}
		d.tparams = append(d.tparams, frame)
		pop = d.popTypeParams
		inst, err := types.Instantiate(nil, named, targs, false)
		if err != nil {
			panic(err)
		}
		base = inst
		_ = tps
	}
	t := base
	if ptr {
		t = types.NewPointer(base)
	}
	return types.NewParam(r.Pos(), d.Pkg.Types, name, t), pop
}

type fnBody struct {
	fn   *gogen.Func
	decl *ast.FuncDecl
	file *ast.File
	tps  map[string]*types.TypeParam
}

// File translates the package-level declarations of one file, in source order; function bodies
// are returned to be translated after all package-level declarations of all files exist.
func (d *Driver) fileDecls(f *ast.File) []fnBody {
	d.setImports(f)
	// named types first (all files share the package scope; a front end declares type names,
	// then initialises them, then signatures, then values, then bodies)
	var typeDecls []*ast.GenDecl
	for _, dc := range f.Decls {
		if g, ok := dc.(*ast.GenDecl); ok && g.Tok == token.TYPE {
			typeDecls = append(typeDecls, g)
		}
	}
	for _, g := range typeDecls {
		d.genDecl(g, true)
	}
	var fns []fnBody
	for _, dc := range f.Decls {
		switch x := dc.(type) {
		case *ast.FuncDecl:
			var recv *types.Var
			pop := func() {}
			if x.Recv != nil {
				recv, pop = d.recv(x)
			}
			tps := d.pushTypeParams(x.Type.TypeParams)
			s := d.Sig(recv, x.Type, tps)
			frame := map[string]*types.TypeParam{}
			for _, fr := range d.tparams {
				for k, v := range fr {
					frame[k] = v
				}
			}
			d.popTypeParams()
			pop()
			var fn *gogen.Func
			var err error
			d.do("NewFuncWith", 0, func() { fn, err = d.Pkg.NewFuncWith(x.Name.Pos(), x.Name.Name, s, nil) })
			if err != nil {
				panic(err)
			}
			fns = append(fns, fnBody{fn, x, f, frame})
		case *ast.GenDecl:
			if x.Tok == token.VAR || x.Tok == token.CONST {
				d.genDecl(x, true)
			}
		}
	}
	return fns
}

func (d *Driver) setImports(f *ast.File) {
	d.imports = map[string]string{}
	for _, is := range f.Imports {
		path, _ := strconv.Unquote(is.Path.Value)
		name := ""
		if is.Name != nil {
			name = is.Name.Name
		} else if path == "unsafe" {
			name = "unsafe"
		} else {
			name = d.pkgRef(path).Types.Name()
		}
		if name == "_" {
			d.Pkg.ForceImport(path)
			continue
		}
		d.imports[name] = path
	}
}

func (d *Driver) funcBody(fb fnBody) {
	if fb.decl.Body == nil {
		return
	}
	d.setImports(fb.file)
	d.tparams = append(d.tparams, fb.tps)
	defer d.popTypeParams()
	d.do("BodyStart", 0, func() { fb.fn.BodyStart(d.Pkg, fb.decl.Body) })
	d.body(fb.decl.Body)
	d.do("End(func)", 0, func() { d.CB.End(fb.decl.Body) })
}

// ---------------------------------------------------------------------------------------------
// running a whole package

// Options configures a build.
type Options struct {
	XGo         bool // XGo-builtin configuration (big-number types, println overload, extra string methods)
	NoInterp    bool // no NodeInterpreter
	Importer    types.Importer
	Recorder    gogen.Recorder
	PkgPath     string
	PkgName     string
	FileNames   []string // gogen file name per source file ("" = default file)
	Setup       func(d *Driver)
	Finish      func(d *Driver) // called after all files are translated, before the package is written
	NoWrite     bool
	CanImplicit func(pkg *gogen.Package, V, T types.Type, pv *gogen.Element) bool
}

// Result is what a build produced.
type Result struct {
	Errs      []error // HandleErr deliveries
	Panic     any     // recovered panic value (nil if none)
	PanicKind string  // "reported" | "runtime" | "unsupported" | "other"
	Stack     string
	Output    map[string]string // gogen file name -> emitted source
	WriteErr  error
	Pkg       *gogen.Package
	Steps     int
	At        ast.Node // what the driver was translating when a panic occurred
	BuildDur  time.Duration
	WriteDur  time.Duration
}

// Accepted reports whether the builder reported nothing at all.
func (r *Result) Accepted() bool { return len(r.Errs) == 0 && r.Panic == nil && r.WriteErr == nil }

// Rejected reports whether the builder reported an error through one of its channels.
func (r *Result) Rejected() bool {
	return len(r.Errs) > 0 || r.PanicKind == "reported" || r.WriteErr != nil
}

func (r *Result) ErrText() string {
	var parts []string
	for _, e := range r.Errs {
		parts = append(parts, e.Error())
	}
	if r.Panic != nil {
		parts = append(parts, fmt.Sprintf("panic(%s): %v", r.PanicKind, r.Panic))
	}
	if r.WriteErr != nil {
		parts = append(parts, "write: "+r.WriteErr.Error())
	}
	return strings.Join(parts, "; ")
}

type srcInterp struct {
	fs *token.FileSet
	sr map[string][]byte
}

func (p srcInterp) LoadExpr(n ast.Node) string {
	pos := p.fs.Position(n.Pos())
	end := p.fs.Position(n.End())
	src := p.sr[pos.Filename]
	if pos.Offset >= 0 && end.Offset <= len(src) && pos.Offset <= end.Offset {
		return string(src[pos.Offset:end.Offset])
	}
	return "?"
}

// ClassifyPanic maps a recovered value to a kind.
func ClassifyPanic(e any) string {
	switch v := e.(type) {
	case unsupported:
		return "unsupported"
	case interface{ RuntimeError() }:
		return "runtime"
	case *gogen.CodeError, *gogen.MatchError, *gogen.ImportError:
		return "reported"
	case error:
		_ = v
		return "reported"
	case string:
		return "reported"
	}
	// gogen's fatalMsg is an unexported string type
	if fmt.Sprintf("%T", e) == "gogen.fatalMsg" {
		return "reported"
	}
	return "other"
}

// NewXGoBuiltin is the XGo-builtin configuration used by the repository's own tests.
func NewXGoBuiltin(pkg *gogen.Package, conf *gogen.Config) *types.Package {
	fmtp := pkg.Import("fmt")
	b := pkg.Import("github.com/goplus/gogen/internal/builtin")
	builtin := types.NewPackage("", "")
	if builtin.Scope().Insert(gogen.NewOverloadFunc(token.NoPos, builtin, "println", fmtp.Ref("Println"))) != nil {
		panic("println exists")
	}
	conf.UntypedBigInt = b.Ref("XGo_untyped_bigint").Type().(*types.Named)
	conf.UntypedBigRat = b.Ref("XGo_untyped_bigrat").Type().(*types.Named)
	conf.UntypedBigFloat = b.Ref("XGo_untyped_bigfloat").Type().(*types.Named)
	gogen.InitBuiltin(pkg, builtin, conf)
	tiStr := pkg.BuiltinTI(types.Typ[types.String])
	tiStr.AddMethods(&gogen.BuiltinMethod{Name: "Capitalize", Fn: b.Ref("Capitalize")})
	return builtin
}

// DebugStacks makes Build keep the stack of reported panics too.
var DebugStacks = false

// Build drives gogen with the given parsed files.
func Build(fset *token.FileSet, files []*ast.File, srcs map[string][]byte, o Options) (r *Result) {
	r = &Result{Output: map[string]string{}}
	conf := &gogen.Config{Importer: o.Importer, Fset: fset, Recorder: o.Recorder, CanImplicitCast: o.CanImplicit}
	if !o.NoInterp {
		conf.NodeInterpreter = srcInterp{fset, srcs}
	}
	if o.XGo {
		conf.NewBuiltin = NewXGoBuiltin
	}
	conf.HandleErr = func(err error) { r.Errs = append(r.Errs, err) }
	name := o.PkgName
	if name == "" && len(files) > 0 {
		name = files[0].Name.Name
	}
	d := &Driver{Fset: fset}
	guard := func(stage string, f func()) {
		defer func() {
			if e := recover(); e != nil {
				r.Panic = e
				r.PanicKind = ClassifyPanic(e)
				r.At = d.Cur
				if r.PanicKind != "reported" || DebugStacks {
					r.Stack = stage + "\n" + string(debug.Stack())
				}
			}
		}()
		f()
	}
	t0 := time.Now()
	defer func() {
		if r.WriteDur == 0 {
			r.BuildDur = time.Since(t0)
		}
	}()
	guard("build", func() {
		pkg := gogen.NewPackage(o.PkgPath, name, conf)
		r.Pkg = pkg
		d.Pkg, d.CB = pkg, pkg.CB()
		if o.Setup != nil {
			o.Setup(d)
		}
		var bodies []fnBody
		for i, f := range files {
			if i < len(o.FileNames) {
				if _, err := pkg.SetCurFile(o.FileNames[i], true); err != nil {
					panic(err)
				}
			}
			bodies = append(bodies, d.fileDecls(f)...)
		}
		for _, fb := range bodies {
			for i, f := range files {
				if f == fb.file && i < len(o.FileNames) {
					pkg.SetCurFile(o.FileNames[i], true)
				}
			}
			d.funcBody(fb)
		}
		if o.Finish != nil {
			o.Finish(d)
		}
	})
	r.Steps = d.Steps
	r.BuildDur = time.Since(t0)
	if r.Panic != nil || o.NoWrite || r.Pkg == nil {
		return
	}
	t1 := time.Now()
	defer func() { r.WriteDur = time.Since(t1) + 1 }()
	guard("write", func() {
		var names []string
		r.Pkg.ForEachFile(func(fname string, _ *gogen.File) { names = append(names, fname) })
		sort.Strings(names)
		for _, fname := range names {
			var b strings.Builder
			if err := gogen.WriteTo(&b, r.Pkg, fname); err != nil {
				r.WriteErr = err
				return
			}
			r.Output[fname] = b.String()
		}
	})
	return
}
