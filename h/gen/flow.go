package gen

// flow.go: function bodies from a control-flow grammar for C10 (missing return / label
// diagnostics). Bodies are built so that the only go/types errors they can contain are
// "missing return", "label declared and not used" and "label already declared".

import (
	"fmt"
	"strings"

	"pgregory.net/rapid"
)

const flowPrelude = `package main

var (
	x  int
	v  interface{}
	ch chan int
	xs []int
)

func cond() bool { return x > 0 }

`

type flowGen struct {
	t        *rapid.T
	b        strings.Builder
	ind      int
	results  bool
	feats    map[string]int
	shadowed bool // panic is shadowed in this function
	lblSeq   int
	pool     []string
}

type flowCtx struct {
	inLoop      bool
	inBreakable bool
	loopLabels  []string // labels of enclosing labeled loops (continue targets)
	breakLabels []string // labels of enclosing labeled for/switch/select
	gotoLabels  []string // labels defined in this or an enclosing block of the same function
	depth       int
	lastInCase  bool
}

func (g *flowGen) n(label string, lo, hi int) int { return rapid.IntRange(lo, hi).Draw(g.t, label) }
func (g *flowGen) chance(label string, num, den int) bool {
	return rapid.IntRange(0, den-1).Draw(g.t, label) < num
}
func (g *flowGen) line(format string, a ...any) {
	g.b.WriteString(strings.Repeat("\t", g.ind))
	fmt.Fprintf(&g.b, format, a...)
	g.b.WriteByte('\n')
}
func (g *flowGen) feat(s string) { g.feats[s]++ }

// block emits n statements; some get labels from a small pool (so duplicates and unused labels occur).
func (g *flowGen) block(c flowCtx, n int) {
	// labels this block will define, visible to gotos in nested statements (forward or backward)
	var defs []string
	nl := 0
	if n > 0 && c.depth < 6 {
		nl = g.n("nlabels", 0, 2)
		if g.chance("nolabels", 1, 2) {
			nl = 0
		}
	}
	for i := 0; i < nl; i++ {
		if len(g.pool) > 0 && g.chance("reuse-label", 1, 8) {
			defs = append(defs, g.pool[g.n("label", 0, len(g.pool)-1)]) // a duplicate definition
		} else {
			g.lblSeq++
			name := fmt.Sprintf("L%d", g.lblSeq)
			g.pool = append(g.pool, name)
			defs = append(defs, name)
		}
	}
	c.gotoLabels = append(append([]string{}, c.gotoLabels...), defs...)
	at := map[int][]string{}
	for _, l := range defs {
		k := g.n("labelat", 0, n-1)
		at[k] = append(at[k], l)
	}
	for i := 0; i < n; i++ {
		labels := at[i]
		c2 := c
		c2.lastInCase = c.lastInCase && i == n-1
		g.stmt(c2, labels)
	}
}

func (g *flowGen) body(c flowCtx, n int) {
	g.ind++
	c.depth++
	g.block(c, n)
	g.ind--
}

func (g *flowGen) stmt(c flowCtx, labels []string) {
	for _, l := range labels {
		g.ind--
		g.line("%s:", l)
		g.ind++
		g.feat("label")
	}
	kinds := []string{"simple", "simple", "return", "panic", "if", "ifelse", "ifelsechain", "for", "forcond", "forever", "range", "switch", "typeswitch", "select", "block", "closure", "goto", "empty"}
	if c.depth >= 5 {
		kinds = []string{"simple", "return", "panic", "goto", "empty"}
	}
	if c.inBreakable {
		kinds = append(kinds, "break", "break")
	}
	if c.inLoop {
		kinds = append(kinds, "continue")
	}
	if len(c.breakLabels) > 0 {
		kinds = append(kinds, "labeledbreak", "labeledbreak")
	}
	if len(c.loopLabels) > 0 {
		kinds = append(kinds, "labeledcontinue")
	}
	k := kinds[g.n("kind", 0, len(kinds)-1)]
	// a label directly on a for/switch/select makes it a break/continue target
	own := ""
	if len(labels) > 0 {
		own = labels[len(labels)-1]
	}
	nb := func() int { return g.n("nbody", 0, 3) }
	switch k {
	case "simple":
		g.line("x++")
	case "empty":
		if len(labels) > 0 {
			g.line(";")
		} else {
			g.line("x--")
		}
	case "return":
		g.feat("return")
		if g.results {
			g.line("return x")
		} else {
			g.line("return")
		}
	case "panic":
		g.feat("panic")
		if g.shadowed {
			g.feat("shadowed-panic-call")
		}
		g.line("panic(\"p\")")
	case "goto":
		if len(c.gotoLabels) == 0 {
			g.line("x++")
			return
		}
		g.feat("goto")
		g.line("goto %s", c.gotoLabels[g.n("gotolabel", 0, len(c.gotoLabels)-1)])
	case "break":
		g.feat("break")
		g.line("break")
	case "continue":
		g.feat("continue")
		g.line("continue")
	case "labeledbreak":
		g.feat("labeled-break")
		g.line("break %s", c.breakLabels[g.n("bl", 0, len(c.breakLabels)-1)])
	case "labeledcontinue":
		g.feat("labeled-continue")
		g.line("continue %s", c.loopLabels[g.n("cl", 0, len(c.loopLabels)-1)])
	case "if":
		g.line("if cond() {")
		c2 := c
		c2.lastInCase = false
		g.body(c2, nb())
		g.line("}")
	case "ifelse", "ifelsechain":
		g.feat("if-else")
		g.line("if cond() {")
		c2 := c
		c2.lastInCase = false
		g.body(c2, nb())
		if k == "ifelsechain" {
			g.line("} else if x > 1 {")
			g.body(c2, nb())
		}
		g.line("} else {")
		g.body(c2, nb())
		g.line("}")
	case "for", "forcond", "forever", "range":
		c2 := c
		c2.inLoop, c2.inBreakable, c2.lastInCase = true, true, false
		if own != "" {
			c2.loopLabels = append(append([]string{}, c.loopLabels...), own)
			c2.breakLabels = append(append([]string{}, c.breakLabels...), own)
		}
		switch k {
		case "for":
			g.line("for i := 0; i < x; i++ {")
		case "forcond":
			g.line("for cond() {")
		case "forever":
			g.feat("for-ever")
			g.line("for {")
		default:
			g.line("for range xs {")
		}
		g.body(c2, nb())
		g.line("}")
	case "switch":
		c2 := c
		c2.inBreakable = true
		if own != "" {
			c2.breakLabels = append(append([]string{}, c.breakLabels...), own)
		}
		g.feat("switch")
		g.line("switch x {")
		nc := g.n("ncases", 0, 3)
		hasDefault := g.chance("default", 1, 2)
		defaultAt := -1
		if hasDefault {
			defaultAt = g.n("defaultat", 0, nc)
			g.feat("switch-default")
		}
		total := nc
		if hasDefault {
			total++
		}
		ci := 0
		for i := 0; i < total; i++ {
			if i == defaultAt {
				g.line("default:")
			} else {
				g.line("case %d:", ci+1)
				ci++
			}
			c3 := c2
			c3.lastInCase = false
			g.body(c3, nb())
			if i < total-1 && g.chance("fallthrough", 1, 4) {
				g.feat("fallthrough")
				g.line("\tfallthrough")
			}
		}
		g.line("}")
	case "typeswitch":
		c2 := c
		c2.inBreakable, c2.lastInCase = true, false
		if own != "" {
			c2.breakLabels = append(append([]string{}, c.breakLabels...), own)
		}
		g.feat("type-switch")
		g.line("switch v.(type) {")
		nc := g.n("ncases", 0, 2)
		for i := 0; i < nc; i++ {
			g.line("case %s:", []string{"int", "string"}[i])
			g.body(c2, nb())
		}
		if g.chance("default", 1, 2) {
			g.line("default:")
			g.body(c2, nb())
		}
		g.line("}")
	case "select":
		c2 := c
		c2.inBreakable, c2.lastInCase = true, false
		if own != "" {
			c2.breakLabels = append(append([]string{}, c.breakLabels...), own)
		}
		g.feat("select")
		g.line("select {")
		nc := g.n("ncomm", 0, 2)
		for i := 0; i < nc; i++ {
			if i == 0 {
				g.line("case <-ch:")
			} else {
				g.line("case ch <- 1:")
			}
			g.body(c2, nb())
		}
		if g.chance("default", 1, 3) {
			g.line("default:")
			g.body(c2, nb())
		}
		g.line("}")
	case "block":
		c2 := c
		c2.lastInCase = false
		g.line("{")
		g.body(c2, nb())
		g.line("}")
	case "closure":
		// own label space, own termination analysis
		g.feat("closure")
		res := g.chance("closure-results", 1, 2)
		saveRes, saveSh := g.results, g.shadowed
		g.results = res
		if res {
			g.line("_ = func() int {")
		} else {
			g.line("func() {")
		}
		g.body(flowCtx{depth: c.depth}, g.n("nclosure", 0, 4))
		if res {
			g.line("}")
		} else {
			g.line("}()")
		}
		g.results, g.shadowed = saveRes, saveSh
	}
}

// termTail appends a final statement that is terminating by construction of its outer shape, while its
// inside is full of the things a terminating-statement analysis has to see through: breaks that leave
// only a nested switch / select / loop, continues to the outer label, closures (with their own labels
// and panics) between earlier panics and the end.
func (g *flowGen) termTail(c flowCtx) {
	g.feat("terminating-tail")
	tailEnd := func() {
		if g.chance("tailret", 1, 3) && g.results {
			g.line("return x")
		} else {
			g.line("panic(\"t\")")
		}
	}
	closure := func() {
		if g.chance("tailclosure", 1, 2) {
			g.feat("tail-closure")
			save, saveSh := g.results, g.shadowed
			g.results = false
			g.line("func() {")
			g.body(flowCtx{depth: c.depth + 1}, g.n("nclosure", 0, 3))
			g.line("}()")
			g.results, g.shadowed = save, saveSh
		}
	}
	switch g.n("tailform", 0, 3) {
	case 0, 1:
		// L: for { ... } without any break that targets it
		g.lblSeq++
		l := fmt.Sprintf("T%d", g.lblSeq)
		g.ind--
		g.line("%s:", l)
		g.ind++
		g.feat("label")
		g.feat("tail-labeled-forever")
		c2 := c
		c2.depth++
		c2.inLoop, c2.inBreakable, c2.lastInCase = true, false, false
		c2.loopLabels = append(append([]string{}, c.loopLabels...), l)
		c2.breakLabels = nil
		g.line("for {")
		g.body(c2, g.n("nbody", 1, 3))
		// one nested breakable construct with a plain break that leaves only itself
		switch g.n("tailnest", 0, 2) {
		case 0:
			g.line("\tselect {")
			g.line("\tcase <-ch:")
			g.line("\t\tbreak")
			g.line("\tdefault:")
			g.line("\t\tcontinue %s", l)
			g.line("\t}")
		case 1:
			g.line("\tswitch x {")
			g.line("\tcase 1:")
			g.line("\t\tbreak")
			g.line("\tdefault:")
			g.line("\t\tcontinue %s", l)
			g.line("\t}")
		default:
			g.line("\tfor cond() {")
			g.line("\t\tbreak")
			g.line("\t}")
		}
		g.line("}")
	case 2:
		g.feat("tail-if-else")
		g.line("if cond() {")
		c2 := c
		c2.depth++
		c2.inBreakable, c2.inLoop, c2.breakLabels, c2.loopLabels = false, false, nil, nil
		g.body(c2, g.n("nbody", 0, 2))
		g.ind++
		tailEnd()
		g.ind--
		g.line("} else {")
		g.body(c2, g.n("nbody", 0, 2))
		g.ind++
		closure()
		tailEnd()
		g.ind--
		g.line("}")
	default:
		g.feat("tail-switch")
		g.line("switch x {")
		c2 := c
		c2.depth++
		c2.inBreakable, c2.inLoop, c2.breakLabels, c2.loopLabels = false, false, nil, nil
		for i := 0; i < g.n("ncases", 0, 2); i++ {
			g.line("case %d:", i+1)
			g.body(c2, g.n("nbody", 0, 2))
			g.ind++
			closure()
			tailEnd()
			g.ind--
		}
		g.line("default:")
		g.ind++
		closure()
		tailEnd()
		g.ind--
		g.line("}")
	}
}

// FlowProgram draws a program with one function built from the control-flow grammar.
func FlowProgram(t *rapid.T) (src string, feats map[string]int) {
	g := &flowGen{t: t, feats: map[string]int{}, pool: nil}
	g.results = rapid.IntRange(0, 3).Draw(t, "results") > 0
	g.shadowed = rapid.IntRange(0, 5).Draw(t, "shadow") == 0
	g.ind = 1
	if g.shadowed {
		g.feat("shadowed-panic")
		g.line("panic := func(interface{}) {}")
		g.line("_ = panic")
	}
	g.block(flowCtx{}, g.n("nstmts", 1, 5))
	if g.chance("tail", 1, 2) {
		g.termTail(flowCtx{})
	}
	sig := "func f()"
	if g.results {
		sig = "func f() int"
	}
	return flowPrelude + sig + " {\n" + g.b.String() + "}\n", g.feats
}
