package gen

// prog.go: G-valid, a typed-by-construction generator of Go programs (source text). It keeps a
// scope model and answers "give me an expression of type T at depth d". Every program is still
// confirmed by go/types before use; the generator is never the oracle.

import (
	"fmt"
	"strings"

	"pgregory.net/rapid"
)

type tkind int

const (
	kInt tkind = iota
	kFloat
	kComplex
	kString
	kBool
	kStruct
	kPtr
	kSlice
	kArray
	kMap
	kChan
	kFunc
	kIface
)

type fld struct {
	name string
	t    *ty
}

type mth struct {
	name    string
	params  []*ty
	results []*ty
	ptrRecv bool
}

type ty struct {
	s          string
	k          tkind
	named      bool
	under      *ty // named over basic
	elem, key  *ty
	n          int
	fields     []fld
	methods    []mth
	params     []*ty
	results    []*ty
	variadic   bool
	comparable bool
	bits       int
	unsigned   bool
	dir        int // chan: 0 both, 1 send-only, 2 recv-only
}

func (t *ty) isNumeric() bool { return t.k == kInt || t.k == kFloat || t.k == kComplex }
func (t *ty) ordered() bool   { return t.k == kInt || t.k == kFloat || t.k == kString }

// Universe of types used by generated programs. The prelude declares the named ones.
type universe struct {
	all     []*ty
	by      map[string]*ty
	ints    []*ty
	floats  []*ty
	numeric []*ty
}

func newUniverse() *universe {
	u := &universe{by: map[string]*ty{}}
	add := func(t *ty) *ty { u.all = append(u.all, t); u.by[t.s] = t; return t }
	basicInt := func(s string, bits int, uns bool) *ty {
		return add(&ty{s: s, k: kInt, bits: bits, unsigned: uns, comparable: true})
	}
	tint := basicInt("int", 64, false)
	basicInt("int8", 8, false)
	basicInt("int16", 16, false)
	tint32 := basicInt("int32", 32, false)
	tint64 := basicInt("int64", 64, false)
	tuint := basicInt("uint", 64, true)
	tuint8 := basicInt("uint8", 8, true)
	basicInt("uint16", 16, true)
	basicInt("uint32", 32, true)
	basicInt("uint64", 64, true)
	basicInt("uintptr", 64, true)
	add(&ty{s: "float32", k: kFloat, bits: 32, comparable: true})
	tf64 := add(&ty{s: "float64", k: kFloat, bits: 64, comparable: true})
	add(&ty{s: "complex128", k: kComplex, bits: 128, comparable: true})
	tstr := add(&ty{s: "string", k: kString, comparable: true})
	tbool := add(&ty{s: "bool", k: kBool, comparable: true})
	_ = tint32
	_ = tint64
	_ = tuint
	_ = tuint8
	// named over basic
	tN := add(&ty{s: "N", k: kInt, bits: 64, named: true, under: tint, comparable: true})
	tN.methods = []mth{{name: "M", results: []*ty{tint}}, {name: "Twice", results: []*ty{tN}}}
	add(&ty{s: "F", k: kFloat, bits: 64, named: true, under: tf64, comparable: true})
	add(&ty{s: "Str", k: kString, named: true, under: tstr, comparable: true})
	add(&ty{s: "B", k: kBool, named: true, under: tbool, comparable: true})
	// composite
	tsl := add(&ty{s: "[]int", k: kSlice, elem: tint})
	tss := add(&ty{s: "[]string", k: kSlice, elem: tstr})
	add(&ty{s: "[]byte", k: kSlice, elem: tuint8})
	add(&ty{s: "[3]int", k: kArray, elem: tint, n: 3, comparable: true})
	add(&ty{s: "map[string]int", k: kMap, key: tstr, elem: tint})
	add(&ty{s: "map[N][]string", k: kMap, key: tN, elem: tss})
	add(&ty{s: "chan int", k: kChan, elem: tint, comparable: true})
	add(&ty{s: "<-chan string", k: kChan, elem: tstr, dir: 2, comparable: true})
	add(&ty{s: "chan<- float64", k: kChan, elem: tf64, dir: 1, comparable: true})
	tpi := add(&ty{s: "*int", k: kPtr, elem: tint, comparable: true})
	_ = tpi
	tS := add(&ty{s: "S", k: kStruct, named: true, comparable: true})
	tpS := add(&ty{s: "*S", k: kPtr, elem: tS, comparable: true})
	tS.fields = []fld{{"a", tint}, {"b", tstr}, {"f", tf64}, {"N", tN}, {"p", tpS}}
	tS.methods = []mth{{name: "M", results: []*ty{tint}}, {name: "Set", params: []*ty{tint}, ptrRecv: true}, {name: "Pair", results: []*ty{tint, tstr}}}
	tT := add(&ty{s: "T2", k: kStruct, named: true})
	tT.fields = []fld{{"S", tS}, {"xs", tsl}, {"m", u.by["map[string]int"]}, {"next", nil}}
	tpT := add(&ty{s: "*T2", k: kPtr, elem: tT, comparable: true})
	tT.fields[3].t = tpT
	tT.methods = []mth{{name: "M", results: []*ty{tint}}, {name: "Pair", results: []*ty{tint, tstr}}} // promoted from S (value receiver)
	add(&ty{s: "[]S", k: kSlice, elem: tS})
	add(&ty{s: "struct{ x, y int }", k: kStruct, comparable: true, fields: []fld{{"x", tint}, {"y", tint}}})
	tEmpty := add(&ty{s: "struct{}", k: kStruct, comparable: true})
	add(&ty{s: "chan struct{}", k: kChan, elem: tEmpty, comparable: true})
	tI := add(&ty{s: "I", k: kIface, named: true, comparable: true})
	tI.methods = []mth{{name: "M", results: []*ty{tint}}}
	add(&ty{s: "any", k: kIface, comparable: true})
	terr := add(&ty{s: "error", k: kIface, named: true, comparable: true})
	terr.methods = []mth{{name: "Error", results: []*ty{tstr}}}
	add(&ty{s: "func(int) int", k: kFunc, params: []*ty{tint}, results: []*ty{tint}})
	add(&ty{s: "Fn", k: kFunc, named: true, params: []*ty{tstr, tsl}, results: []*ty{tint, terr}, variadic: true})
	add(&ty{s: "func()", k: kFunc})
	add(&ty{s: "Pair[string, int]", k: kStruct, named: true, comparable: true, fields: []fld{{"Key", tstr}, {"Val", tint}}})
	add(&ty{s: "List[float64]", k: kSlice, named: true, elem: tf64})
	add(&ty{s: "A", k: kSlice, elem: tstr}) // alias of []string
	for _, t := range u.all {
		switch t.k {
		case kInt:
			u.ints = append(u.ints, t)
			u.numeric = append(u.numeric, t)
		case kFloat:
			u.floats = append(u.floats, t)
			u.numeric = append(u.numeric, t)
		case kComplex:
			u.numeric = append(u.numeric, t)
		}
	}
	return u
}

const preludeTypes = `
type N int
type F float64
type Str string
type B bool
type S struct {
	a int
	b string
	f float64
	N
	p *S
}
type T2 struct {
	S
	xs   []int
	m    map[string]int
	next *T2
}
type I interface {
	M() int
}
type Fn func(string, ...int) (int, error)
type (
	Pair[K comparable, V any] struct {
		Key K
		Val V
	}
	List[T any] []T
	A           = []string
)

func (s S) M() int              { return s.a }
func (s *S) Set(v int)          { s.a = v }
func (s S) Pair() (int, string) { return s.a, s.b }
func (n N) M() int              { return int(n) }
func (n N) Twice() N            { return n + n }

func Id[T any](x T) T { return x }
func Sum[T ~int | ~float64](xs ...T) T {
	var s T
	for _, x := range xs {
		s += x
	}
	return s
}
func Map[T, U any](xs []T, f func(T) U) []U {
	var out []U
	for _, x := range xs {
		out = append(out, f(x))
	}
	return out
}
func Keys[K comparable, V any](m map[K]V) []K {
	var ks []K
	for k := range m {
		ks = append(ks, k)
	}
	return ks
}
func two() (int, string)         { return 1, "x" }
func three(x int) (a, b int, err error) { return x, x, nil }
`

type varInfo struct {
	name string
	t    *ty
	addr bool // addressable / assignable
}

type funcInfo struct {
	name    string
	params  []*ty
	results []*ty
}

// ProgOpts biases the generator.
type ProgOpts struct {
	MaxStmts    int  // per function body
	MaxDepth    int  // expression depth
	MaxNest     int  // statement nesting
	NFuncs      int  // generated functions
	TypedConsts bool // allow constant conversions / typed constant declarations in expressions
	NoGenerics  bool
	NoGoto      bool
	ManyFiles   bool
	Avoid       Avoid // shapes excluded by construction because they trigger a listed known finding
}

// Avoid names the shapes a generator must not produce (each corresponds to a known finding).
type Avoid map[string]bool

type progGen struct {
	t       *rapid.T
	u       *universe
	o       ProgOpts
	b       strings.Builder
	scopes  [][]varInfo
	funcs   []funcInfo
	nameSeq int
	results []*ty // results of the enclosing function
	loops   int
	breakOK int // break allowed (loop/switch/select depth)
	labels  []string
	Feats   map[string]int
	imports map[string]bool
	indent  int
	nstmts  int
	inDefer bool
	exact   bool // the expression being generated must have exactly the requested type
}

func (g *progGen) n(label string, lo, hi int) int { return rapid.IntRange(lo, hi).Draw(g.t, label) }
func (g *progGen) chance(label string, num, den int) bool {
	return rapid.IntRange(0, den-1).Draw(g.t, label) < num
}
func (g *progGen) feat(s string) { g.Feats[s]++ }

func (g *progGen) fresh(prefix string) string {
	g.nameSeq++
	return fmt.Sprintf("%s%d", prefix, g.nameSeq)
}

func (g *progGen) push() { g.scopes = append(g.scopes, nil) }
func (g *progGen) pop()  { g.scopes = g.scopes[:len(g.scopes)-1] }
func (g *progGen) declare(v varInfo) {
	g.scopes[len(g.scopes)-1] = append(g.scopes[len(g.scopes)-1], v)
}
func (g *progGen) line(format string, a ...any) {
	g.b.WriteString(strings.Repeat("\t", g.indent))
	fmt.Fprintf(&g.b, format, a...)
	g.b.WriteByte('\n')
}

func (g *progGen) varsOf(t *ty, needAddr bool) []varInfo {
	var out []varInfo
	seen := map[string]bool{}
	for i := len(g.scopes) - 1; i >= 0; i-- {
		for j := len(g.scopes[i]) - 1; j >= 0; j-- {
			v := g.scopes[i][j]
			if seen[v.name] {
				continue
			}
			seen[v.name] = true
			if v.t == t && (!needAddr || v.addr) {
				out = append(out, v)
			}
		}
	}
	return out
}

func (g *progGen) anyType() *ty { return g.u.all[g.n("type", 0, len(g.u.all)-1)] }

func (g *progGen) pickTy(ts []*ty) *ty { return ts[g.n("ty", 0, len(ts)-1)] }

// valueTypes returns types usable for local variables (everything).
func (g *progGen) simpleType() *ty {
	names := []string{"int", "int", "string", "bool", "float64", "N", "S", "[]int", "map[string]int", "*S", "uint8", "int64", "I", "any", "error", "uint", "float32", "Str", "[3]int", "chan int", "*int", "[]string", "func(int) int", "complex128", "F", "int8", "uint32", "T2", "Pair[string, int]", "List[float64]", "A", "[]S", "B", "*T2", "struct{ x, y int }", "[]byte", "int16", "int32", "uint16", "uint64", "uintptr", "map[N][]string", "<-chan string", "chan<- float64", "Fn", "func()", "chan struct{}", "struct{}"}
	if g.o.NoGenerics {
		names = names[:28]
	}
	return g.u.by[names[g.n("stype", 0, len(names)-1)]]
}

// ---------------------------------------------------------------------------------------------
// expressions

func (g *progGen) intLit(t *ty) string {
	max := 100
	if t.bits == 8 {
		max = 100
	}
	switch g.n("intlit", 0, 5) {
	case 0:
		return "0"
	case 1:
		return "1"
	case 2:
		return fmt.Sprintf("0x%x", g.n("v", 0, max))
	case 3:
		if !t.unsigned && t.under == nil {
			// a rune literal is an untyped rune constant; fine for any integer type
			return fmt.Sprintf("'%c'", rune('a'+g.n("r", 0, 25)))
		}
		return fmt.Sprint(g.n("v", 0, max))
	default:
		return fmt.Sprint(g.n("v", 0, max))
	}
}

func (g *progGen) lit(t *ty) (string, bool) {
	switch t.k {
	case kInt:
		return g.intLit(t), true
	case kFloat:
		return []string{"0.5", "1.25", "2", "1e3", "3.0", "0x1p-2", "7"}[g.n("flit", 0, 6)], true
	case kComplex:
		return []string{"1i", "2.5", "(1 + 2i)", "0"}[g.n("clit", 0, 3)], true
	case kString:
		return []string{`""`, `"a"`, `"hello"`, "`raw\\n`", `"é\t\"q\""`, `"x" + "y"`}[g.n("slit", 0, 5)], true
	case kBool:
		return []string{"true", "false"}[g.n("blit", 0, 1)], true
	}
	return "", false
}

func (g *progGen) leaf(t *ty) string {
	vs := g.varsOf(t, false)
	if len(vs) > 0 && (t.k > kBool || g.chance("usevar", 3, 4)) {
		return vs[g.n("var", 0, len(vs)-1)].name
	}
	if l, ok := g.lit(t); ok {
		if t.named && !g.o.TypedConsts {
			// untyped literal is assignable to named basic types in value contexts; but as a
			// standalone operand it would change the expression's type, so use the package var
			return "v" + sanitize(t.s)
		}
		if t.named {
			return t.s + "(" + l + ")"
		}
		return l
	}
	return "v" + sanitize(t.s)
}

func sanitize(s string) string {
	var b strings.Builder
	for _, r := range s {
		switch {
		case r >= 'a' && r <= 'z' || r >= 'A' && r <= 'Z' || r >= '0' && r <= '9':
			b.WriteRune(r)
		case r == '*':
			b.WriteString("P")
		case r == '[' || r == ']':
			b.WriteString("_")
		case r == '-':
			b.WriteString("r")
		}
	}
	return b.String()
}

// expr returns an expression of exactly type t (for untyped-constant leaves: assignable to t and,
// in operand position with a typed partner, converted to t).
func (g *progGen) expr(t *ty, d int) string {
	exact := g.exact
	g.exact = false
	if d <= 0 {
		return g.leaf(t)
	}
	type prod func() string
	var ps []prod
	add := func(w int, p prod) {
		for i := 0; i < w; i++ {
			ps = append(ps, p)
		}
	}
	add(2, func() string { return g.leaf(t) })
	typedOperand := func(d int) string {
		// an operand that is certainly typed t (never a bare literal)
		vs := g.varsOf(t, false)
		if len(vs) > 0 && g.chance("tv", 1, 2) {
			return vs[g.n("var", 0, len(vs)-1)].name
		}
		if d > 0 {
			if e := g.nonLit(t, d); e != "" {
				return e
			}
		}
		return "v" + sanitize(t.s)
	}
	switch t.k {
	case kInt:
		add(3, func() string {
			g.feat("arith")
			op := []string{"+", "-", "*", "&", "|", "^", "&^"}[g.n("iop", 0, 6)]
			return "(" + typedOperand(d-1) + " " + op + " " + g.expr(t, d-1) + ")"
		})
		add(1, func() string {
			g.feat("arith-lit-left")
			l, _ := g.lit(t)
			return "(" + l + " + " + typedOperand(d-1) + ")"
		})
		add(1, func() string {
			g.feat("div")
			// non-zero constant divisor or variable divisor
			if g.chance("divc", 1, 2) {
				return "(" + typedOperand(d-1) + " " + []string{"/", "%"}[g.n("dop", 0, 1)] + " " + fmt.Sprint(g.n("dv", 1, 9)) + ")"
			}
			return "(" + typedOperand(d-1) + " / " + typedOperand(d-1) + ")"
		})
		add(2, func() string {
			g.feat("shift")
			cnt := fmt.Sprint(g.n("sh", 0, 7))
			if g.chance("shv", 1, 2) {
				cnt = g.expr(g.pickTy(g.u.ints), d-1)
				if strings.HasPrefix(cnt, "-") || strings.HasPrefix(cnt, "'") {
					cnt = "vuint"
				}
				if isIntLit(cnt) {
					cnt = "vuint"
				}
			}
			return "(" + typedOperand(d-1) + " " + []string{"<<", ">>"}[g.n("shop", 0, 1)] + " " + cnt + ")"
		})
		add(1, func() string {
			g.feat("unary")
			op := []string{"-", "^", "+"}[g.n("uop", 0, 2)]
			return "(" + op + typedOperand(d-1) + ")"
		})
		add(2, func() string {
			g.feat("conv-num")
			src := g.pickTy(g.u.numeric)
			if src.k == kComplex {
				src = g.u.by["float64"]
			}
			return t.s + "(" + g.typedExpr(src, d-1) + ")"
		})
		if t.s == "int" {
			add(2, func() string {
				g.feat("len")
				lt := g.pickTy([]*ty{g.u.by["[]int"], g.u.by["string"], g.u.by["map[string]int"], g.u.by["[3]int"], g.u.by["[]string"], g.u.by["chan int"], g.u.by["A"]})
				fn := "len"
				if (lt.k == kSlice || lt.k == kArray || lt.k == kChan) && g.chance("cap", 1, 3) {
					fn = "cap"
				}
				return fn + "(" + g.typedExpr(lt, d-1) + ")"
			})
			add(1, func() string {
				g.feat("copy")
				return "copy(" + g.expr(g.u.by["[]int"], d-1) + ", " + g.expr(g.u.by["[]int"], d-1) + ")"
			})
			add(1, func() string {
				g.feat("generic-call")
				if g.o.NoGenerics {
					return g.leaf(t)
				}
				return "Sum(" + typedOperand(d-1) + ", " + g.expr(t, d-1) + ")"
			})
			add(1, func() string {
				g.feat("minmax")
				return []string{"min", "max"}[g.n("mm", 0, 1)] + "(" + typedOperand(d-1) + ", " + g.expr(t, d-1) + ")"
			})
		}
		if t.s == "uint8" {
			add(1, func() string {
				g.feat("string-index")
				return g.typedExpr(g.u.by["string"], d-1) + "[" + g.idx(d-1) + "]"
			})
		}
		if t.s == "int32" {
			add(1, func() string { return "'x'" })
		}
	case kFloat:
		add(3, func() string {
			g.feat("arith")
			op := []string{"+", "-", "*", "/"}[g.n("fop", 0, 3)]
			rhs := g.expr(t, d-1)
			if op == "/" && isZeroLit(rhs) {
				rhs = "2.5"
			}
			return "(" + typedOperand(d-1) + " " + op + " " + rhs + ")"
		})
		add(1, func() string { g.feat("unary"); return "(-" + typedOperand(d-1) + ")" })
		add(2, func() string {
			g.feat("conv-num")
			src := g.pickTy(g.u.numeric)
			if src.k == kComplex {
				return t.s + "(" + []string{"real", "imag"}[g.n("ri", 0, 1)] + "(vcomplex128))"
			}
			return t.s + "(" + g.typedExpr(src, d-1) + ")"
		})
	case kComplex:
		add(2, func() string {
			g.feat("complex")
			return "complex(" + g.typedExpr(g.u.by["float64"], d-1) + ", " + g.expr(g.u.by["float64"], d-1) + ")"
		})
		add(2, func() string {
			g.feat("arith")
			return "(" + typedOperand(d-1) + " " + []string{"+", "-", "*"}[g.n("cop", 0, 2)] + " " + g.expr(t, d-1) + ")"
		})
	case kString:
		add(3, func() string { g.feat("concat"); return "(" + typedOperand(d-1) + " + " + g.expr(t, d-1) + ")" })
		if !t.named {
			add(1, func() string { g.feat("string-slice"); return g.typedExpr(t, d-1) + "[" + g.sliceIdx(d-1) + "]" })
			add(1, func() string {
				g.feat("conv-string")
				switch g.n("sconv", 0, 3) {
				case 0:
					return "string(" + g.typedExpr(g.u.by["[]byte"], d-1) + ")"
				case 1:
					return "string(" + g.typedExpr(g.u.by["Str"], d-1) + ")"
				case 2:
					return "string(rune(" + g.typedExpr(g.u.by["int"], d-1) + "))"
				default:
					g.imports["strconv"] = true
					return "strconv.Itoa(" + g.expr(g.u.by["int"], d-1) + ")"
				}
			})
			add(1, func() string {
				g.imports["strings"] = true
				g.feat("pkg-call")
				return "strings.ToUpper(" + g.expr(t, d-1) + ")"
			})
			add(1, func() string {
				g.imports["fmt"] = true
				g.feat("pkg-call")
				return "fmt.Sprint(" + g.expr(g.simpleType(), d-1) + ", " + g.expr(g.simpleType(), d-1) + ")"
			})
			add(1, func() string { g.feat("method-call"); return g.typedExpr(g.u.by["error"], d-1) + ".Error()" })
		} else {
			add(1, func() string { g.feat("conv-string"); return t.s + "(" + g.typedExpr(g.u.by["string"], d-1) + ")" })
		}
	case kBool:
		add(3, func() string {
			g.feat("compare")
			ct := g.simpleType()
			for !ct.comparable || ct.k == kIface && ct.s != "any" && ct.s != "I" && ct.s != "error" {
				ct = g.u.by["int"]
			}
			op := []string{"==", "!="}[g.n("eq", 0, 1)]
			if ct.ordered() && g.chance("ord", 1, 2) {
				op = []string{"<", "<=", ">", ">="}[g.n("ord", 0, 3)]
			}
			return "(" + g.typedExpr(ct, d-1) + " " + op + " " + g.expr(ct, d-1) + ")"
		})
		add(1, func() string {
			// a typed operand compared with an untyped constant of another kind that is representable
			// in the operand's type (2.0 == n, n < 1e2, 'a' != n), constant on either side
			g.feat("compare-untyped-const")
			ct := g.pickTy([]*ty{g.u.by["int"], g.u.by["uint8"], g.u.by["int64"], g.u.by["N"], g.u.by["float64"], g.u.by["F"], g.u.by["int8"]})
			c := []string{"2.0", "1e2", "0.0", "'a'", "3", "100.0"}[g.n("cuc", 0, 5)]
			op := []string{"==", "!=", "<", "<=", ">", ">="}[g.n("cop", 0, 5)]
			if g.chance("constleft", 1, 2) {
				return "(" + c + " " + op + " " + g.typedExpr(ct, d-1) + ")"
			}
			return "(" + g.typedExpr(ct, d-1) + " " + op + " " + c + ")"
		})
		boolOperand := func() string {
			e := g.expr(t, d-1)
			if g.o.Avoid["logic-untyped-bool"] && !isIdentLike(e) && !isConstBoolExpr(e) {
				// comparisons yield an untyped boolean; the builder types !x, x && y, x || y of such
				// operands as bool (known finding), so give the operator typed operands
				g.feat("excluded:logic-untyped-bool")
				return "bool(" + e + ")"
			}
			return e
		}
		add(2, func() string {
			g.feat("logic")
			return "(" + boolOperand() + " " + []string{"&&", "||"}[g.n("lop", 0, 1)] + " " + boolOperand() + ")"
		})
		add(1, func() string { g.feat("unary"); return "!" + typedOperandParen(boolOperand()) })
		add(1, func() string {
			g.feat("nil-compare")
			nt := g.pickTy([]*ty{g.u.by["[]int"], g.u.by["map[string]int"], g.u.by["*S"], g.u.by["error"], g.u.by["any"], g.u.by["func(int) int"], g.u.by["chan int"], g.u.by["I"]})
			if nt.s == "any" && g.o.Avoid["alias-any-nil"] {
				g.feat("excluded:alias-any-nil")
				nt = g.u.by["error"]
			}
			if g.chance("nilleft", 1, 4) {
				return "(nil " + []string{"==", "!="}[g.n("eq", 0, 1)] + " " + g.typedExpr(nt, d-1) + ")"
			}
			return "(" + g.typedExpr(nt, d-1) + " " + []string{"==", "!="}[g.n("eq", 0, 1)] + " nil)"
		})
		if t.named {
			ps = ps[:0]
			add(1, func() string { return g.leaf(t) })
			add(1, func() string { return "B(" + g.expr(g.u.by["bool"], d-1) + ")" })
		}
	case kStruct:
		add(3, func() string { return g.structLit(t, d-1) })
		if t.s == "S" {
			add(1, func() string { g.feat("deref"); return "(*" + g.typedExpr(g.u.by["*S"], d-1) + ")" })
			add(1, func() string { g.feat("embedded-select"); return g.typedExpr(g.u.by["T2"], d-1) + ".S" })
			add(1, func() string { g.feat("index"); return g.typedExpr(g.u.by["[]S"], d-1) + "[" + g.idx(d-1) + "]" })
			add(1, func() string { g.feat("type-assert"); return g.typedExpr(g.u.by["I"], d-1) + ".(S)" })
		}
		if t.s == "T2" {
			add(1, func() string { g.feat("deref"); return "(*" + g.typedExpr(g.u.by["*T2"], d-1) + ")" })
		}
	case kPtr:
		add(2, func() string {
			g.feat("addr-of")
			vs := g.varsOf(t.elem, true)
			if len(vs) > 0 {
				return "&" + vs[g.n("var", 0, len(vs)-1)].name
			}
			if t.elem.k == kStruct {
				return "&" + g.structLit(t.elem, d-1)
			}
			return "new(" + t.elem.s + ")"
		})
		add(1, func() string { g.feat("new"); return "new(" + t.elem.s + ")" })
		if t.s == "*S" {
			add(1, func() string { g.feat("field"); return g.typedExpr(g.u.by["S"], d-1) + ".p" })
			add(1, func() string { g.feat("addr-of-field"); return "&" + g.leafAddr(g.u.by["T2"]) + ".S" })
		}
		if t.s == "*T2" {
			add(1, func() string { g.feat("field"); return g.typedExpr(g.u.by["T2"], d-1) + ".next" })
		}
		if t.s == "*int" {
			add(1, func() string {
				g.feat("addr-of-index")
				return "&" + g.typedExpr(g.u.by["[]int"], d-1) + "[" + g.idx(d-1) + "]"
			})
			add(1, func() string { g.feat("addr-of-field"); return "&" + g.leafAddr(g.u.by["S"]) + ".a" })
		}
	case kSlice:
		if t.s == "A" {
			add(2, func() string { return g.expr(g.u.by["[]string"], d) })
			break
		}
		add(3, func() string { return g.sliceLit(t, d-1) })
		add(2, func() string {
			if t.named && g.o.Avoid["append-named-slice"] {
				g.feat("excluded:append-named-slice")
				return g.sliceLit(t, d-1)
			}
			g.feat("append")
			n := g.n("nappend", 0, 2)
			s := "append(" + g.typedExpr(t, d-1)
			for i := 0; i < n; i++ {
				if g.o.Avoid["append-untyped-mix"] {
					g.feat("excluded:append-untyped-mix")
					s += ", " + g.typedExpr(t.elem, d-1)
				} else {
					s += ", " + g.expr(t.elem, d-1)
				}
			}
			if n == 0 && (g.chance("spread", 1, 2) || g.o.Avoid["append1"]) {
				if g.o.Avoid["append1"] {
					g.feat("excluded:append1")
				}
				g.feat("append-spread")
				s += ", " + g.expr(t, d-1) + "..."
			}
			return s + ")"
		})
		add(1, func() string {
			g.feat("make")
			if t.named {
				return "make(" + t.s + ", " + g.expr(g.u.by["int"], d-1) + ")"
			}
			if g.chance("mk3", 1, 2) {
				return "make(" + t.s + ", " + fmt.Sprint(g.n("mklen", 0, 3)) + ", " + []string{"10", "vint"}[g.n("mkcap", 0, 1)] + ")"
			}
			return "make(" + t.s + ", " + g.idx(d-1) + ")"
		})
		add(2, func() string {
			g.feat("slice-expr")
			if g.chance("s3", 1, 4) {
				g.feat("slice3")
				lo := g.n("lo", 0, 1)
				return g.typedExpr(t, d-1) + fmt.Sprintf("[%d:%d:%s]", lo, lo+g.n("hi", 0, 1), "vint")
			}
			return g.typedExpr(t, d-1) + "[" + g.sliceIdx(d-1) + "]"
		})
		if t.s == "[]int" {
			add(1, func() string { g.feat("slice-array"); return g.leafAddr(g.u.by["[3]int"]) + "[:]" })
			add(1, func() string { g.feat("field"); return g.typedExpr(g.u.by["T2"], d-1) + ".xs" })
		}
		if t.s == "[]byte" {
			add(1, func() string { g.feat("conv-string"); return "[]byte(" + g.expr(g.u.by["string"], d-1) + ")" })
		}
		if t.s == "[]string" {
			add(1, func() string {
				g.feat("map-index")
				return g.typedExpr(g.u.by["map[N][]string"], d-1) + "[" + g.expr(g.u.by["N"], d-1) + "]"
			})
			if !g.o.NoGenerics {
				add(1, func() string {
					g.feat("generic-call")
					return "Map(" + g.expr(g.u.by["[]int"], d-1) + ", func(x int) string { return \"s\" })"
				})
				add(1, func() string { g.feat("generic-call"); return "Keys(" + g.expr(g.u.by["map[string]int"], d-1) + ")" })
			}
		}
		if t.s == "List[float64]" {
			add(1, func() string {
				g.feat("conv")
				return "List[float64](" + g.sliceLit(&ty{s: "[]float64", k: kSlice, elem: g.u.by["float64"]}, d-1) + ")"
			})
		}
	case kArray:
		add(3, func() string {
			g.feat("array-lit")
			switch g.n("alit", 0, 2) {
			case 0:
				return "[3]int{" + g.expr(t.elem, d-1) + ", " + g.expr(t.elem, d-1) + "}"
			case 1:
				return "[...]int{2: " + g.expr(t.elem, d-1) + "}"
			default:
				return "[3]int{0: " + g.expr(t.elem, d-1) + ", 2: " + g.expr(t.elem, d-1) + "}"
			}
		})
	case kMap:
		add(3, func() string {
			g.feat("map-lit")
			n := g.n("nmap", 0, 2)
			var kvs []string
			for i := 0; i < n; i++ {
				var k string
				if t.key.k == kString {
					k = fmt.Sprintf("%q", fmt.Sprintf("k%d", i))
				} else {
					k = fmt.Sprint(i + 1)
				}
				kvs = append(kvs, k+": "+g.eltExpr(t.elem, d-1))
			}
			return t.s + "{" + strings.Join(kvs, ", ") + "}"
		})
		add(1, func() string { g.feat("make"); return "make(" + t.s + ")" })
		if t.s == "map[string]int" {
			add(1, func() string { g.feat("field"); return g.typedExpr(g.u.by["T2"], d-1) + ".m" })
		}
	case kChan:
		if t.dir == 0 {
			add(2, func() string { g.feat("make"); return "make(" + t.s + ", " + g.idx(d-1) + ")" })
		} else if t.s == "<-chan string" {
			add(1, func() string { g.feat("chan-conv"); return "(<-chan string)(make(chan string))" })
		} else {
			add(1, func() string { g.feat("chan-conv"); return "(chan<- float64)(make(chan float64, 1))" })
		}
	case kFunc:
		add(3, func() string { return g.funcLit(t, d-1) })
		if t.s == "func(int) int" {
			if !g.o.NoGenerics {
				add(1, func() string { g.feat("generic-inst"); return "Id[int]" })
			}
			add(1, func() string { g.feat("method-expr"); return "func(x int) int { return N.M(N(x)) }" })
		}
		if t.s == "func()" {
			add(1, func() string { g.feat("closure-capture"); return "func() { " + g.leafAddr(g.u.by["int"]) + "++ }" })
		}
	case kIface:
		add(2, func() string {
			g.feat("iface-conv")
			var src *ty
			switch t.s {
			case "I":
				src = g.pickTy([]*ty{g.u.by["S"], g.u.by["N"], g.u.by["*S"], g.u.by["T2"], g.u.by["*T2"]})
			case "error":
				g.imports["fmt"] = true
				return "fmt.Errorf(\"e%d\", " + g.expr(g.u.by["int"], d-1) + ")"
			default:
				src = g.simpleType()
			}
			if exact {
				return t.s + "(" + g.typedExpr(src, d-1) + ")"
			}
			return g.typedExpr(src, d-1)
		})
		if t.s == "any" {
			add(1, func() string { g.feat("iface-conv"); return "any(" + g.expr(g.simpleType(), d-1) + ")" })
		}
		if t.s == "I" {
			add(1, func() string { g.feat("type-assert"); return g.typedExpr(g.u.by["any"], d-1) + ".(I)" })
			add(1, func() string { g.feat("iface-conv"); return "I(" + g.typedExpr(g.u.by["S"], d-1) + ")" })
		}
	}
	// generic producers for any type
	add(1, func() string {
		e := g.nonLit(t, d)
		if e == "" {
			return g.leaf(t)
		}
		return e
	})
	if !g.o.NoGenerics {
		add(1, func() string { g.feat("generic-call"); return "Id(" + g.typedExpr(t, d-1) + ")" })
	}
	add(1, func() string {
		g.feat("iife")
		return "func() " + t.s + " { return " + g.expr(t, d-1) + " }()"
	})
	return ps[g.n("prod", 0, len(ps)-1)]()
}

func typedOperandParen(s string) string { return "(" + s + ")" }

// condExpr is an if / for condition: usually of type bool, sometimes of the named boolean type B
// (a condition may be of any boolean type).
func (g *progGen) condExpr(d int) string {
	t := g.u.by["bool"]
	if g.n("namedboolcond", 0, 7) == 0 {
		t = g.u.by["B"]
		g.feat("named-bool-condition")
	}
	return g.hdr(g.expr(t, d), t)
}

// hdr parenthesises an expression used in a statement header if it contains a composite literal.
func (g *progGen) hdr(e string, t *ty) string {
	if strings.Contains(e, "{") {
		if g.o.Avoid["header-complit"] {
			g.feat("excluded:header-complit")
			return "v" + sanitize(t.s)
		}
		if !(strings.HasPrefix(e, "(") && strings.HasSuffix(e, ")") && balanced(e[1:len(e)-1])) {
			return "(" + e + ")"
		}
	}
	return e
}

func balanced(s string) bool {
	n := 0
	for _, r := range s {
		switch r {
		case '(':
			n++
		case ')':
			n--
			if n < 0 {
				return false
			}
		}
	}
	return n == 0
}

// paren wraps expressions that begin with a prefix operator or are function literals, so that a
// postfix operator (selector, index, call, assertion) applied by the caller binds to the whole.
func paren(e string) string {
	if e == "" {
		return e
	}
	switch e[0] {
	case '&', '*', '-', '<', '!', '^', '+':
		return "(" + e + ")"
	}
	if strings.HasPrefix(e, "func") {
		return "(" + e + ")"
	}
	return e
}

// isConstBoolExpr recognises expressions built from true, false, !, &&, || and parentheses only.
func isConstBoolExpr(s string) bool {
	for _, w := range []string{"true", "false", "&&", "||", "!", "(", ")", " "} {
		s = strings.ReplaceAll(s, w, "")
	}
	return s == ""
}

func isIdentLike(s string) bool {
	for _, r := range s {
		if !(r >= 'a' && r <= 'z' || r >= 'A' && r <= 'Z' || r >= '0' && r <= '9' || r == '_') {
			return false
		}
	}
	return s != "true" && s != "false"
}

func isIntLit(s string) bool {
	if s == "" {
		return false
	}
	for _, r := range s {
		if !(r >= '0' && r <= '9' || r == 'x' || r >= 'a' && r <= 'f') {
			return false
		}
	}
	return true
}

func isZeroLit(s string) bool {
	switch s {
	case "0", "0.0", "0x0", "0e0":
		return true
	}
	return false
}

// typedExpr returns an expression whose type is certainly t even when standing alone (never a
// bare untyped constant).
func (g *progGen) typedExpr(t *ty, d int) string {
	old := g.exact
	g.exact = true
	e := paren(g.expr(t, d))
	g.exact = old
	if g.isBareConst(e, t) {
		if t.named || g.o.TypedConsts {
			return t.s + "(" + e + ")"
		}
		vs := g.varsOf(t, false)
		if len(vs) > 0 {
			return vs[g.n("var", 0, len(vs)-1)].name
		}
		return "v" + sanitize(t.s)
	}
	return e
}

// isBareConst conservatively recognises expressions that might be untyped constants.
func (g *progGen) isBareConst(e string, t *ty) bool {
	if t.k > kBool {
		return false
	}
	if e == "" {
		return true
	}
	c := e[0]
	if c >= '0' && c <= '9' || c == '\'' || c == '"' || c == '`' || c == '-' || e == "true" || e == "false" {
		return true
	}
	if c == '(' {
		// parenthesised: constant only if no identifier inside
		for _, r := range e {
			if r >= 'a' && r <= 'z' && r != 'x' && r != 'e' && r != 'i' && r != 'p' || r >= 'A' && r <= 'Z' {
				return false
			}
		}
		return true
	}
	return false
}

// nonLit produces an expression of type t from selectors, calls, indexing, receive...; "" if none.
func (g *progGen) nonLit(t *ty, d int) string {
	var ps []func() string
	if d <= 0 {
		return ""
	}
	for _, src := range []string{"S", "T2", "*S", "*T2", "Pair[string, int]", "struct{ x, y int }"} {
		st := g.u.by[src]
		if g.o.NoGenerics && strings.Contains(src, "[") {
			continue
		}
		base := st
		if st.k == kPtr {
			base = st.elem
		}
		for _, f := range base.fields {
			if f.t == t {
				f, st := f, st
				ps = append(ps, func() string { g.feat("field"); return g.typedExpr(st, d-1) + "." + f.name })
			}
		}
		if base.s == "T2" { // promoted fields of S
			for _, f := range g.u.by["S"].fields {
				if f.t == t {
					f, st := f, st
					ps = append(ps, func() string { g.feat("promoted-field"); return g.typedExpr(st, d-1) + "." + f.name })
				}
			}
		}
	}
	for _, recv := range []string{"S", "N", "I", "*S", "T2", "*T2"} {
		rt := g.u.by[recv]
		base := rt
		if rt.k == kPtr {
			base = rt.elem
		}
		for _, m := range base.methods {
			if len(m.results) == 1 && m.results[0] == t && len(m.params) == 0 {
				m, rt := m, rt
				ps = append(ps, func() string { g.feat("method-call"); return g.typedExpr(rt, d-1) + "." + m.name + "()" })
			}
		}
	}
	for _, f := range g.funcs {
		if len(f.results) == 1 && f.results[0] == t {
			f := f
			ps = append(ps, func() string {
				g.feat("func-call")
				var as []string
				for _, p := range f.params {
					as = append(as, g.expr(p, d-1))
				}
				return f.name + "(" + strings.Join(as, ", ") + ")"
			})
		}
	}
	for _, ct := range g.u.all {
		switch {
		case ct.k == kSlice && ct.elem == t && ct.s != "A":
			ct := ct
			ps = append(ps, func() string { g.feat("index"); return g.typedExpr(ct, d-1) + "[" + g.idx(d-1) + "]" })
		case ct.k == kArray && ct.elem == t:
			ct := ct
			ps = append(ps, func() string {
				g.feat("index")
				return g.typedExpr(ct, d-1) + "[" + fmt.Sprint(g.n("ai", 0, ct.n-1)) + "]"
			})
		case ct.k == kMap && ct.elem == t:
			ct := ct
			ps = append(ps, func() string { g.feat("map-index"); return g.typedExpr(ct, d-1) + "[" + g.expr(ct.key, d-1) + "]" })
		case ct.k == kChan && ct.elem == t && ct.dir != 1:
			ct := ct
			ps = append(ps, func() string { g.feat("recv"); return "(<-" + g.typedExpr(ct, d-1) + ")" })
		case ct.k == kPtr && ct.elem == t:
			ct := ct
			ps = append(ps, func() string { g.feat("deref"); return "(*" + g.typedExpr(ct, d-1) + ")" })
		case ct.k == kFunc && len(ct.results) == 1 && ct.results[0] == t && !ct.variadic:
			ct := ct
			ps = append(ps, func() string {
				g.feat("funcval-call")
				var as []string
				for _, p := range ct.params {
					as = append(as, g.expr(p, d-1))
				}
				return g.typedExpr(ct, d-1) + "(" + strings.Join(as, ", ") + ")"
			})
		}
	}
	if len(ps) == 0 {
		return ""
	}
	return ps[g.n("nonlit", 0, len(ps)-1)]()
}

func (g *progGen) idx(d int) string {
	if g.chance("idxlit", 1, 2) {
		return fmt.Sprint(g.n("i", 0, 2))
	}
	e := g.expr(g.u.by["int"], d)
	if strings.HasPrefix(e, "-") || strings.HasPrefix(e, "(-") {
		return "vint"
	}
	return e
}

func (g *progGen) sliceIdx(d int) string {
	switch g.n("sl", 0, 3) {
	case 0:
		return ":"
	case 1:
		return g.idx(d) + ":"
	case 2:
		return ":" + g.idx(d)
	}
	// constant indices must be ordered: use variable high bound
	return fmt.Sprint(g.n("lo", 0, 1)) + ":" + "vint"
}

func (g *progGen) leafAddr(t *ty) string {
	vs := g.varsOf(t, true)
	if len(vs) > 0 {
		return vs[g.n("avar", 0, len(vs)-1)].name
	}
	return "v" + sanitize(t.s)
}

func (g *progGen) eltExpr(t *ty, d int) string {
	// element of a composite literal: composite element types may be elided
	if g.chance("elide", 1, 2) {
		switch t.k {
		case kStruct:
			if t.s == "S" {
				g.feat("elided-elt")
				return "{a: " + g.expr(g.u.by["int"], d) + "}"
			}
		case kSlice:
			if !t.named && t.s != "A" {
				g.feat("elided-elt")
				return "{" + g.expr(t.elem, d) + "}"
			}
		}
	}
	return g.expr(t, d)
}

func (g *progGen) structLit(t *ty, d int) string {
	g.feat("struct-lit")
	switch g.n("slitkind", 0, 2) {
	case 0:
		return t.s + "{}"
	case 1:
		// keyed, random subset of fields
		var parts []string
		for _, f := range t.fields {
			if g.chance("fld", 1, 2) {
				parts = append(parts, f.name+": "+g.expr(f.t, d))
			}
		}
		return t.s + "{" + strings.Join(parts, ", ") + "}"
	default:
		var parts []string
		for _, f := range t.fields {
			parts = append(parts, g.expr(f.t, d))
		}
		return t.s + "{" + strings.Join(parts, ", ") + "}"
	}
}

func (g *progGen) sliceLit(t *ty, d int) string {
	g.feat("slice-lit")
	n := g.n("nsl", 0, 3)
	var parts []string
	keyed := g.chance("keyed", 1, 5)
	for i := 0; i < n; i++ {
		e := g.eltExpr(t.elem, d)
		if keyed && i == n-1 {
			g.feat("slice-lit-keyed")
			e = fmt.Sprint(i+2) + ": " + e
		}
		parts = append(parts, e)
	}
	return t.s + "{" + strings.Join(parts, ", ") + "}"
}

func (g *progGen) sigString(t *ty, names bool) (string, []varInfo) {
	var ps []string
	var vars []varInfo
	for i, p := range t.params {
		s := p.s
		if t.variadic && i == len(t.params)-1 {
			s = "..." + p.elem.s
		}
		if names {
			n := g.fresh("p")
			vars = append(vars, varInfo{n, p, true})
			s = n + " " + s
		}
		ps = append(ps, s)
	}
	res := ""
	switch len(t.results) {
	case 0:
	case 1:
		res = " " + t.results[0].s
	default:
		var rs []string
		for _, r := range t.results {
			rs = append(rs, r.s)
		}
		res = " (" + strings.Join(rs, ", ") + ")"
	}
	return "(" + strings.Join(ps, ", ") + ")" + res, vars
}

func (g *progGen) funcLit(t *ty, d int) string {
	g.feat("func-lit")
	sig, vars := g.sigString(t, true)
	// body rendered inline into a sub-builder
	saveB, saveRes, saveLoops, saveBreak, saveInd, saveLabels := g.b, g.results, g.loops, g.breakOK, g.indent, g.labels
	g.b = strings.Builder{}
	g.results, g.loops, g.breakOK, g.labels = t.results, 0, 0, nil
	g.indent = saveInd + 1
	g.push()
	for _, v := range vars {
		g.declare(v)
	}
	n := g.n("closure-stmts", 0, 2)
	if d <= 0 {
		n = 0
	}
	for i := 0; i < n; i++ {
		g.stmt(1)
	}
	g.finalReturn(d)
	g.pop()
	body := g.b.String()
	g.b, g.results, g.loops, g.breakOK, g.indent, g.labels = saveB, saveRes, saveLoops, saveBreak, saveInd, saveLabels
	return "func" + sig + " {\n" + body + strings.Repeat("\t", g.indent) + "}"
}

func (g *progGen) finalReturn(d int) {
	if len(g.results) == 0 {
		return
	}
	var rs []string
	for _, r := range g.results {
		rs = append(rs, g.expr(r, d))
	}
	g.line("return %s", strings.Join(rs, ", "))
}

// ---------------------------------------------------------------------------------------------
// statements

func (g *progGen) block(nest int, n int) {
	g.push()
	g.indent++
	for i := 0; i < n; i++ {
		g.stmt(nest)
	}
	g.indent--
	g.pop()
}

func (g *progGen) stmt(nest int) {
	g.nstmts++
	d := g.n("edepth", 0, g.o.MaxDepth)
	kinds := []string{"define", "define", "assign", "assign", "opassign", "incdec", "var", "call", "call", "define2", "assign2", "mapassign", "fieldassign", "derefassign", "indexassign", "send", "const", "go", "defer", "swapassign", "blank"}
	if nest > 0 {
		kinds = append(kinds, "if", "if", "ifelse", "for3", "forcond", "forever", "range", "range", "switch", "switch", "typeswitch", "select", "block", "labeled", "ifinit", "localtype", "closurestmt")
		if !g.o.NoGoto {
			kinds = append(kinds, "goto")
		}
	}
	if g.loops > 0 {
		kinds = append(kinds, "break", "continue")
	} else if g.breakOK > 0 {
		kinds = append(kinds, "break")
	}
	if len(g.labels) > 0 {
		kinds = append(kinds, "labeledbreak")
	}
	kinds = append(kinds, "return")
	k := kinds[g.n("stmtkind", 0, len(kinds)-1)]
	g.feat("stmt:" + k)
	nb := func() int { return g.n("nbody", 0, 3) }
	switch k {
	case "define":
		t := g.simpleType()
		name := g.fresh("x")
		g.line("%s := %s", name, g.typedExpr(t, d))
		g.declare(varInfo{name, t, true})
	case "define2":
		// multi-value forms
		switch g.n("mv", 0, 5) {
		case 0:
			a, b := g.fresh("x"), g.fresh("ok")
			g.line("%s, %s := %s[%s]", a, b, g.typedExpr(g.u.by["map[string]int"], d), g.expr(g.u.by["string"], d))
			g.declare(varInfo{a, g.u.by["int"], true})
			g.declare(varInfo{b, g.u.by["bool"], true})
			g.feat("comma-ok-map")
		case 1:
			a, b := g.fresh("x"), g.fresh("ok")
			g.line("%s, %s := %s.(S)", a, b, g.typedExpr(g.u.by["any"], d))
			g.declare(varInfo{a, g.u.by["S"], true})
			g.declare(varInfo{b, g.u.by["bool"], true})
			g.feat("comma-ok-assert")
		case 2:
			a, b := g.fresh("x"), g.fresh("ok")
			g.line("%s, %s := <-%s", a, b, g.typedExpr(g.u.by["chan int"], d))
			g.declare(varInfo{a, g.u.by["int"], true})
			g.declare(varInfo{b, g.u.by["bool"], true})
			g.feat("comma-ok-recv")
		case 3:
			a, b := g.fresh("x"), g.fresh("y")
			g.line("%s, %s := two()", a, b)
			g.declare(varInfo{a, g.u.by["int"], true})
			g.declare(varInfo{b, g.u.by["string"], true})
			g.feat("multi-call")
		case 4:
			a, b := g.fresh("x"), g.fresh("y")
			g.line("%s, %s := %s.Pair()", a, b, g.typedExpr(g.u.by["S"], d))
			g.declare(varInfo{a, g.u.by["int"], true})
			g.declare(varInfo{b, g.u.by["string"], true})
			g.feat("multi-call")
		default:
			t1, t2 := g.simpleType(), g.simpleType()
			a, b := g.fresh("x"), g.fresh("y")
			g.line("%s, %s := %s, %s", a, b, g.typedExpr(t1, d), g.typedExpr(t2, d))
			g.declare(varInfo{a, t1, true})
			g.declare(varInfo{b, t2, true})
		}
	case "assign", "blank":
		t := g.simpleType()
		vs := g.varsOf(t, true)
		if len(vs) == 0 || k == "blank" {
			g.line("_ = %s", g.expr(t, d))
			return
		}
		g.line("%s = %s", vs[g.n("lv", 0, len(vs)-1)].name, g.expr(t, d))
	case "assign2":
		vi, vs := g.varsOf(g.u.by["int"], true), g.varsOf(g.u.by["string"], true)
		if len(vi) == 0 || len(vs) == 0 {
			g.line("_, _ = two()")
			return
		}
		g.line("%s, %s = two()", vi[0].name, vs[0].name)
	case "swapassign":
		vi := g.varsOf(g.u.by["int"], true)
		if len(vi) < 2 {
			g.line("_, _ = %s, %s", g.expr(g.u.by["int"], d), g.expr(g.u.by["string"], d))
			return
		}
		g.line("%s, %s = %s, %s", vi[0].name, vi[1].name, vi[1].name, g.expr(g.u.by["int"], d))
	case "opassign":
		t := g.pickTy([]*ty{g.u.by["int"], g.u.by["float64"], g.u.by["string"], g.u.by["uint8"], g.u.by["N"], g.u.by["int64"]})
		vs := g.varsOf(t, true)
		if len(vs) == 0 {
			g.line("v%s += %s", sanitize(t.s), g.expr(t, d))
			return
		}
		op := "+="
		if t.k == kInt {
			op = []string{"+=", "-=", "*=", "|=", "&=", "^=", "&^=", "<<=", ">>="}[g.n("aop", 0, 8)]
		} else if t.k == kFloat {
			op = []string{"+=", "-=", "*="}[g.n("aop", 0, 2)]
		}
		rhs := g.expr(t, d)
		if strings.HasPrefix(op, "<") || strings.HasPrefix(op, ">") {
			rhs = fmt.Sprint(g.n("shc", 0, 5))
		}
		g.line("%s %s %s", vs[g.n("lv", 0, len(vs)-1)].name, op, rhs)
	case "incdec":
		t := g.pickTy([]*ty{g.u.by["int"], g.u.by["float64"], g.u.by["uint8"], g.u.by["N"]})
		g.line("%s%s", g.leafAddr(t), []string{"++", "--"}[g.n("id", 0, 1)])
	case "var":
		t := g.simpleType()
		name := g.fresh("x")
		switch g.n("varform", 0, 3) {
		case 0:
			g.line("var %s %s", name, t.s)
		case 1:
			g.line("var %s %s = %s", name, t.s, g.expr(t, d))
		case 2:
			g.line("var %s = %s", name, g.typedExpr(t, d))
		default:
			n2 := g.fresh("x")
			g.line("var %s, %s %s", name, n2, t.s)
			g.declare(varInfo{n2, t, true})
		}
		g.declare(varInfo{name, t, true})
	case "const":
		name := g.fresh("c")
		switch g.n("constform", 0, 6) {
		case 5:
			// implicit repetition of a spec with several names whose values have different kinds:
			// every name repeats the expression (and so the kind) of its own column
			g.feat("const-block-multi-name")
			c1, c2, c3, c4, c5 := g.fresh("c"), g.fresh("c"), g.fresh("c"), g.fresh("c"), g.fresh("c")
			switch g.n("cmn", 0, 2) {
			case 0:
				g.line("const (")
				g.line("\t%s, %s = iota, \"v\"", name, c1)
				g.line("\t%s, %s", c2, c3)
				g.line("\t%s, %s", c4, c5)
				g.line(")")
				g.line("_ = %s + \"!\"", c5)
				g.line("_ = %s + 1", c4)
			case 1:
				g.line("const (")
				g.line("\t%s, %s, %s = 1.5, iota, 'x'", name, c1, c2)
				g.line("\t%s, %s, %s", c3, c4, c5)
				g.line(")")
				g.line("_, _, _ = %s * 2, %s << 1, string(rune(%s))", c3, c4, c5)
			default:
				g.line("const (")
				g.line("\t%s, %s uint8 = iota, iota + 10", name, c1)
				g.line("\t%s, %s", c2, c3)
				g.line("\t%s, %s = \"s\", true", c4, c5)
				g.line(")")
				g.line("_, _ = %s + %s, %s + \"t\"", c2, c3, c4)
				g.line("_ = !%s", c5)
			}
		case 6:
			// a typed constant shifted by a non-constant count keeps the constant's type
			g.feat("typed-const-shift-nonconst")
			sh := g.fresh("n")
			g.line("var %s uint = %d", sh, g.n("shv", 0, 3))
			typ := []string{"uint8", "int16", "uint32", "N"}[g.n("tcs", 0, 3)]
			g.line("const %s %s = %d", name, typ, g.n("cv", 1, 9))
			r1, r2 := g.fresh("x"), g.fresh("x")
			g.line("%s := %s %s %s", r1, name, []string{"<<", ">>"}[g.n("shop", 0, 1)], sh)
			g.line("%s := %s(%d) %s %s", r2, typ, g.n("cv", 1, 9), []string{"<<", ">>"}[g.n("shop", 0, 1)], sh)
			g.line("_, _ = %s, %s", r1, r2)
		case 3, 4:
			// a block whose specs change between typed, untyped and implicit repetition: every
			// implicit spec repeats the type and expression of the spec before it, nothing earlier
			g.feat("const-block-mixed")
			typ := []string{"uint16", "int8", "float64", "N", "Str"}[g.n("cbt", 0, 4)]
			first := "iota"
			if typ == "Str" {
				first = `"a"`
			}
			g.line("const (")
			g.line("\t%s %s = %s", name, typ, first)
			g.line("\t%s", g.fresh("c"))
			g.line("\t%s = iota", g.fresh("c"))
			g.line("\t%s", g.fresh("c"))
			g.line("\t%s = \"s\"", g.fresh("c"))
			g.line("\t%s", g.fresh("c"))
			if g.chance("cbtail", 1, 2) {
				g.line("\t%s %s = %s", g.fresh("c"), typ, first)
				g.line("\t%s", g.fresh("c"))
			}
			g.line(")")
		case 0:
			g.line("const %s = %d", name, g.n("cv", 0, 50))
		case 1:
			g.line("const %s = %q", name, "s")
		default:
			g.line("const (")
			g.line("\t%s = iota + %d", name, g.n("cv", 0, 5))
			g.line("\t%s", g.fresh("c"))
			g.line(")")
		}
	case "call":
		switch g.n("callkind", 0, 6) {
		case 0:
			g.imports["fmt"] = true
			g.line("fmt.Println(%s, %s)", g.expr(g.simpleType(), d), g.expr(g.simpleType(), d))
		case 1:
			g.line("%s.Set(%s)", g.leafAddr(g.u.by["S"]), g.expr(g.u.by["int"], d))
			g.feat("ptr-method-on-addressable")
		case 2:
			g.line("%s.Set(%s)", g.typedExpr(g.u.by["*S"], d), g.expr(g.u.by["int"], d))
		case 3:
			g.line("%s()", g.typedExpr(g.u.by["func()"], d))
		case 4:
			g.line("delete(%s, %s)", g.typedExpr(g.u.by["map[string]int"], d), g.expr(g.u.by["string"], d))
		case 5:
			g.line("close(%s)", g.typedExpr(g.u.by["chan int"], d))
		default:
			g.line("panic(%s)", g.expr(g.simpleType(), d))
		}
	case "mapassign":
		g.line("%s[%s] = %s", g.typedExpr(g.u.by["map[string]int"], d), g.expr(g.u.by["string"], d), g.expr(g.u.by["int"], d))
	case "fieldassign":
		if g.chance("promoted", 1, 3) {
			g.line("%s.a = %s", g.leafAddr(g.u.by["T2"]), g.expr(g.u.by["int"], d))
			g.feat("promoted-field-assign")
		} else if g.chance("viaptr", 1, 2) {
			g.line("%s.b = %s", g.typedExpr(g.u.by["*S"], d), g.expr(g.u.by["string"], d))
		} else {
			g.line("%s.f = %s", g.leafAddr(g.u.by["S"]), g.expr(g.u.by["float64"], d))
		}
	case "derefassign":
		g.line("*%s = %s", g.typedExpr(g.u.by["*int"], d), g.expr(g.u.by["int"], d))
	case "indexassign":
		g.line("%s[%s] = %s", g.typedExpr(g.u.by["[]int"], d), g.idx(d), g.expr(g.u.by["int"], d))
	case "send":
		if g.chance("sendf", 1, 3) {
			g.line("%s <- %s", g.typedExpr(g.u.by["chan<- float64"], d), g.expr(g.u.by["float64"], d))
		} else {
			g.line("%s <- %s", g.typedExpr(g.u.by["chan int"], d), g.expr(g.u.by["int"], d))
		}
	case "go", "defer":
		switch g.n("gokind", 0, 2) {
		case 0:
			g.line("%s %s(%s)", k, g.funcLit(g.u.by["func(int) int"], d), g.expr(g.u.by["int"], d))
		case 1:
			g.line("%s %s.Set(%s)", k, g.typedExpr(g.u.by["*S"], d), g.expr(g.u.by["int"], d))
		default:
			g.line("%s %s()", k, g.typedExpr(g.u.by["func()"], d))
		}
	case "if", "ifelse", "ifinit":
		if k == "ifinit" {
			name := g.fresh("x")
			g.push()
			g.line("if %s := %s; %s > %s {", name, g.hdr(g.typedExpr(g.u.by["int"], d), g.u.by["int"]), name, g.hdr(g.expr(g.u.by["int"], d), g.u.by["int"]))
			g.declare(varInfo{name, g.u.by["int"], true})
			g.block(nest-1, nb())
			g.line("} else {")
			g.block(nest-1, nb())
			g.line("}")
			g.pop()
			return
		}
		g.line("if %s {", g.condExpr(d))
		g.block(nest-1, nb())
		if k == "ifelse" {
			if g.chance("elseif", 1, 2) {
				g.line("} else if %s {", g.condExpr(d))
				g.block(nest-1, nb())
			}
			g.line("} else {")
			g.block(nest-1, nb())
		}
		g.line("}")
	case "for3":
		name := g.fresh("i")
		g.push()
		g.declare(varInfo{name, g.u.by["int"], true})
		g.line("for %s := 0; %s < %s; %s++ {", name, name, g.hdr(g.expr(g.u.by["int"], d), g.u.by["int"]), name)
		g.loops++
		g.breakOK++
		g.block(nest-1, nb())
		g.loops--
		g.breakOK--
		g.line("}")
		g.pop()
	case "forcond":
		g.line("for %s {", g.condExpr(d))
		g.loops++
		g.breakOK++
		g.block(nest-1, nb())
		g.loops--
		g.breakOK--
		g.line("}")
	case "forever":
		g.line("for {")
		g.loops++
		g.breakOK++
		g.block(nest-1, nb())
		g.loops--
		g.breakOK--
		g.line("}")
	case "range":
		g.push()
		kname, vname := g.fresh("k"), g.fresh("v")
		switch g.n("rangekind", 0, 8) {
		case 0:
			g.line("for %s, %s := range %s {", kname, vname, g.hdr(g.typedExpr(g.u.by["[]int"], d), g.u.by["[]int"]))
			g.declare(varInfo{kname, g.u.by["int"], true})
			g.declare(varInfo{vname, g.u.by["int"], true})
		case 1:
			g.line("for %s, %s := range %s {", kname, vname, g.hdr(g.typedExpr(g.u.by["map[string]int"], d), g.u.by["map[string]int"]))
			g.declare(varInfo{kname, g.u.by["string"], true})
			g.declare(varInfo{vname, g.u.by["int"], true})
		case 2:
			g.line("for %s, %s := range %s {", kname, vname, g.hdr(g.typedExpr(g.u.by["string"], d), g.u.by["string"]))
			g.declare(varInfo{kname, g.u.by["int"], true})
			g.declare(varInfo{vname, g.u.by["int32"], true})
		case 3:
			g.line("for %s := range %s {", vname, g.hdr(g.typedExpr(g.u.by["chan int"], d), g.u.by["chan int"]))
			g.declare(varInfo{vname, g.u.by["int"], true})
		case 4:
			// range over an integer: the iteration variable has the operand's own type
			it := g.pickTy([]*ty{g.u.by["int"], g.u.by["int64"], g.u.by["uint8"], g.u.by["N"], g.u.by["uint"], g.u.by["int8"]})
			g.line("for %s := range %s {", kname, g.hdr(g.typedExpr(it, d), it))
			g.declare(varInfo{kname, it, true})
			g.feat("range-int")
			if it.s != "int" {
				g.feat("range-typed-int")
			}
		case 5:
			g.line("for range %s {", g.hdr(g.typedExpr(g.u.by["[]string"], d), g.u.by["[]string"]))
		case 6:
			g.line("for _, %s := range %s {", vname, g.hdr(g.typedExpr(g.u.by["[3]int"], d), g.u.by["[3]int"]))
			g.declare(varInfo{vname, g.u.by["int"], true})
		case 7:
			vi := g.varsOf(g.u.by["int"], true)
			if len(vi) >= 2 {
				g.line("for %s, %s = range %s {", vi[0].name, vi[1].name, g.hdr(g.typedExpr(g.u.by["[]int"], d), g.u.by["[]int"]))
				g.feat("range-assign")
			} else {
				g.line("for %s := range %s {", kname, g.hdr(g.typedExpr(g.u.by["[]S"], d), g.u.by["[]S"]))
				g.declare(varInfo{kname, g.u.by["int"], true})
			}
		default:
			g.line("for %s, %s := range %s {", kname, vname, g.hdr(g.typedExpr(g.u.by["[]S"], d), g.u.by["[]S"]))
			g.declare(varInfo{kname, g.u.by["int"], true})
			g.declare(varInfo{vname, g.u.by["S"], true})
		}
		g.loops++
		g.breakOK++
		g.block(nest-1, nb())
		g.loops--
		g.breakOK--
		g.line("}")
		g.pop()
	case "switch":
		g.push()
		tagT := g.pickTy([]*ty{g.u.by["int"], g.u.by["string"], g.u.by["N"], g.u.by["uint8"]})
		notag := g.chance("notag", 1, 3)
		if notag {
			g.line("switch {")
		} else if g.chance("swinit", 1, 4) {
			name := g.fresh("x")
			g.line("switch %s := %s; %s {", name, g.hdr(g.typedExpr(tagT, d), tagT), name)
			g.declare(varInfo{name, tagT, true})
		} else {
			g.line("switch %s {", g.hdr(g.typedExpr(tagT, d), tagT))
		}
		nc := g.n("ncases", 0, 3)
		g.breakOK++
		used := map[string]bool{}
		for i := 0; i < nc; i++ {
			if notag {
				g.line("case %s:", g.expr(g.u.by["bool"], d))
			} else {
				var cs []string
				for j := 0; j <= g.n("nvals", 0, 1); j++ {
					var c string
					if tagT.k == kString {
						c = fmt.Sprintf("%q", fmt.Sprintf("c%d_%d", i, j))
					} else {
						c = fmt.Sprint(10*i + j + 1)
					}
					if g.chance("casevar", 1, 4) {
						c = g.typedExpr(tagT, 0)
					}
					if used[c] {
						continue
					}
					used[c] = true
					cs = append(cs, c)
				}
				if len(cs) == 0 {
					cs = []string{g.typedExpr(tagT, 0)}
				}
				g.line("case %s:", strings.Join(cs, ", "))
			}
			g.block(nest-1, nb())
			if i < nc-1 && g.chance("fallthrough", 1, 5) {
				g.line("\tfallthrough")
				g.feat("fallthrough")
			}
		}
		if g.chance("default", 1, 2) {
			g.line("default:")
			g.block(nest-1, nb())
		}
		g.breakOK--
		g.line("}")
		g.pop()
	case "typeswitch":
		g.push()
		src := g.pickTy([]*ty{g.u.by["any"], g.u.by["I"], g.u.by["error"]})
		bind := g.chance("bind", 2, 3)
		name := g.fresh("y")
		if bind {
			g.line("switch %s := %s.(type) {", name, g.hdr(g.typedExpr(src, d), src))
		} else {
			g.line("switch %s.(type) {", g.hdr(g.typedExpr(src, d), src))
		}
		g.breakOK++
		cands := []string{"S", "*S", "N", "T2", "*T2"}
		if src.s == "any" {
			cands = append(cands, "int", "string", "[]int", "I", "error", "func(int) int", "map[string]int")
		}
		if src.s == "error" {
			cands = []string{"interface{ M() int }"}
		}
		perm := rapid.Permutation(cands).Draw(g.t, "tcases")
		nc := g.n("ntcases", 0, 3)
		if nc > len(perm) {
			nc = len(perm)
		}
		for i := 0; i < nc; i++ {
			g.push()
			if i == nc-1 && nc >= 2 && g.chance("multi", 1, 3) && i+1 < len(perm) {
				g.line("case %s, %s:", perm[i], perm[i+1])
				if bind {
					g.declare(varInfo{name, src, false})
					g.line("\t_ = %s", name)
				}
			} else {
				g.line("case %s:", perm[i])
				if bind {
					if ct, ok := g.u.by[perm[i]]; ok {
						g.declare(varInfo{name, ct, false})
					}
					g.line("\t_ = %s", name)
				}
			}
			g.block(nest-1, nb())
			g.pop()
		}
		if g.chance("nilcase", 1, 4) {
			g.line("case nil:")
		}
		if g.chance("default", 1, 2) {
			g.line("default:")
			if bind {
				g.line("\t_ = %s", name)
			}
			g.block(nest-1, nb())
		}
		g.breakOK--
		g.line("}")
		g.pop()
	case "select":
		g.line("select {")
		g.breakOK++
		nc := g.n("ncomm", 0, 3)
		for i := 0; i < nc; i++ {
			g.push()
			switch g.n("commkind", 0, 4) {
			case 0:
				v := g.fresh("v")
				g.line("case %s := <-%s:", v, g.typedExpr(g.u.by["chan int"], d))
				g.declare(varInfo{v, g.u.by["int"], true})
			case 1:
				v, ok := g.fresh("v"), g.fresh("ok")
				g.line("case %s, %s := <-%s:", v, ok, g.typedExpr(g.u.by["<-chan string"], d))
				g.declare(varInfo{v, g.u.by["string"], true})
				g.declare(varInfo{ok, g.u.by["bool"], true})
			case 2:
				g.line("case %s <- %s:", g.typedExpr(g.u.by["chan int"], d), g.expr(g.u.by["int"], d))
			case 3:
				g.line("case <-%s:", g.typedExpr(g.u.by["chan int"], d))
			default:
				vi := g.varsOf(g.u.by["int"], true)
				if len(vi) > 0 {
					g.line("case %s = <-%s:", vi[0].name, g.typedExpr(g.u.by["chan int"], d))
					g.feat("select-recv-assign")
				} else {
					g.line("case <-%s:", g.typedExpr(g.u.by["chan int"], d))
				}
			}
			g.block(nest-1, nb())
			g.pop()
		}
		if g.chance("default", 1, 2) {
			g.line("default:")
			g.block(nest-1, nb())
		}
		g.breakOK--
		g.line("}")
	case "block":
		g.line("{")
		g.block(nest-1, nb())
		g.line("}")
	case "labeled":
		l := g.fresh("L")
		g.line("%s:", l)
		g.line("for %s {", g.condExpr(d))
		g.labels = append(g.labels, l)
		g.loops++
		g.breakOK++
		g.push()
		g.indent++
		for i := 0; i < nb(); i++ {
			g.stmt(nest - 1)
		}
		// guaranteed use of the label
		if g.chance("lcont", 1, 2) {
			g.line("continue %s", l)
		} else {
			g.line("break %s", l)
		}
		g.indent--
		g.pop()
		g.loops--
		g.breakOK--
		g.labels = g.labels[:len(g.labels)-1]
		g.line("}")
	case "goto":
		l := g.fresh("G")
		g.line("%s:", l)
		g.line("if %s {", g.condExpr(d))
		g.line("\tgoto %s", l)
		g.line("}")
	case "labeledbreak":
		l := g.labels[g.n("lbl", 0, len(g.labels)-1)]
		if g.chance("lcont", 1, 2) {
			g.line("continue %s", l)
		} else {
			g.line("break %s", l)
		}
	case "break":
		g.line("break")
	case "continue":
		g.line("continue")
	case "return":
		if g.inDefer {
			return
		}
		if len(g.results) == 0 {
			g.line("if %s {", g.hdr(g.expr(g.u.by["bool"], 0), g.u.by["bool"]))
			g.line("\treturn")
			g.line("}")
			return
		}
		g.line("if %s {", g.hdr(g.expr(g.u.by["bool"], 0), g.u.by["bool"]))
		g.indent++
		g.finalReturn(d)
		g.indent--
		g.line("}")
	case "localtype":
		name := g.fresh("LT")
		g.line("type %s struct {", name)
		g.line("\tv %s", g.simpleType().s)
		g.line("\tn int")
		g.line("}")
		v := g.fresh("x")
		g.line("%s := %s{n: %s}", v, name, g.expr(g.u.by["int"], d))
		g.line("_ = %s.v", v)
	case "closurestmt":
		name := g.fresh("f")
		g.line("%s := %s", name, g.funcLit(g.u.by["func(int) int"], d))
		g.declare(varInfo{name, g.u.by["func(int) int"], true})
	}
}

// ---------------------------------------------------------------------------------------------

// Program is a generated program.
type Program struct {
	Src   string
	Feats map[string]int
}

// GenProgram draws a program.
func GenProgram(t *rapid.T, o ProgOpts) *Program {
	if o.MaxStmts == 0 {
		o.MaxStmts = 8
	}
	if o.MaxDepth == 0 {
		o.MaxDepth = 3
	}
	if o.MaxNest == 0 {
		o.MaxNest = 3
	}
	if o.NFuncs == 0 {
		o.NFuncs = 3
	}
	g := &progGen{t: t, u: newUniverse(), o: o, Feats: map[string]int{}, imports: map[string]bool{}}
	g.push()
	// package-level variables: one per universe type (the leaves of last resort)
	var decls strings.Builder
	for _, ty := range g.u.all {
		name := "v" + sanitize(ty.s)
		fmt.Fprintf(&decls, "var %s %s\n", name, ty.s)
		g.declare(varInfo{name, ty, true})
	}
	// generated package-level declarations
	nv := g.n("npkgvars", 0, 4)
	for i := 0; i < nv; i++ {
		ty := g.simpleType()
		name := g.fresh("g")
		switch g.n("pkgvarform", 0, 2) {
		case 0:
			fmt.Fprintf(&decls, "var %s %s = %s\n", name, ty.s, g.expr(ty, g.n("d", 0, 2)))
		case 1:
			fmt.Fprintf(&decls, "var %s = %s\n", name, g.typedExpr(ty, g.n("d", 0, 2)))
		default:
			n2 := g.fresh("g")
			fmt.Fprintf(&decls, "var (\n\t%s, %s %s\n)\n", name, n2, ty.s)
			g.declare(varInfo{n2, ty, true})
		}
		g.declare(varInfo{name, ty, true})
	}
	if g.chance("pkgconst", 1, 2) {
		fmt.Fprintf(&decls, "const (\n\tk0 = iota\n\tk1\n\tk2 = \"s\"\n\tk3, k4 = 1 << iota, 2.5\n)\n")
	}
	// functions: signatures first (so bodies can call each other)
	type fdecl struct {
		info   funcInfo
		recv   string
		rnames bool
	}
	var fds []fdecl
	for i := 0; i < o.NFuncs; i++ {
		fi := funcInfo{name: g.fresh("fn")}
		np := g.n("nparams", 0, 3)
		for j := 0; j < np; j++ {
			fi.params = append(fi.params, g.simpleType())
		}
		nr := g.n("nresults", 0, 2)
		for j := 0; j < nr; j++ {
			fi.results = append(fi.results, g.simpleType())
		}
		fds = append(fds, fdecl{info: fi})
		g.funcs = append(g.funcs, fi)
	}
	var bodies strings.Builder
	for _, fd := range fds {
		g.b = strings.Builder{}
		g.push()
		var ps []string
		for _, p := range fd.info.params {
			n := g.fresh("p")
			ps = append(ps, n+" "+p.s)
			g.declare(varInfo{n, p, true})
		}
		res := ""
		if len(fd.info.results) == 1 {
			res = " " + fd.info.results[0].s
		} else if len(fd.info.results) > 1 {
			var rs []string
			for _, r := range fd.info.results {
				rs = append(rs, r.s)
			}
			res = " (" + strings.Join(rs, ", ") + ")"
		}
		g.results = fd.info.results
		g.indent = 1
		ns := g.n("nstmts", 1, o.MaxStmts)
		for i := 0; i < ns; i++ {
			g.stmt(o.MaxNest)
		}
		g.finalReturn(g.n("rd", 0, 2))
		g.pop()
		fmt.Fprintf(&bodies, "func %s(%s)%s {\n%s}\n\n", fd.info.name, strings.Join(ps, ", "), res, g.b.String())
	}
	var src strings.Builder
	src.WriteString("package main\n\n")
	if len(g.imports) > 0 {
		src.WriteString("import (\n")
		for _, p := range []string{"fmt", "strconv", "strings"} {
			if g.imports[p] {
				fmt.Fprintf(&src, "\t%q\n", p)
			}
		}
		src.WriteString(")\n")
	}
	src.WriteString(preludeTypes)
	src.WriteString("\n")
	src.WriteString(decls.String())
	src.WriteString("\n")
	src.WriteString(bodies.String())
	return &Program{Src: src.String(), Feats: g.Feats}
}
