package gen

// selector.go: type graphs with colliding field / method names at equal and different embedding
// depths, and one selector expression on them (C08).

import (
	"fmt"
	"sort"
	"strings"

	"pgregory.net/rapid"
)

// ExtPackageSrc is a second package whose exported and unexported members are embedded.
const ExtPackageSrc = `package ext

type E struct {
	Pub  int
	priv int
	A    string
}

func (E) PubM() int  { return 0 }
func (E) privM() int { return 0 }
func (*E) PtrM() int { return 0 }

type EI interface {
	IM() int
	im() int
}

// Outer and OuterP embed a type with an unexported name: its exported members are promoted and can
// be selected (read, assigned, called) from any package, only the embedded field's own name cannot.
type inner struct {
	X    int
	Deep string
	low  int
}

func (inner) InM() int   { return 0 }
func (*inner) InPM() int { return 0 }

type Outer struct {
	inner
	O int
}

type OuterP struct {
	*inner
	OP int
}
`

const ExtPackagePath = "example.com/verif/ext"

var selNames = []string{"A", "B", "x", "y", "M", "N", "Pub", "priv", "PubM", "privM", "PtrM", "IM", "im", "X", "Deep", "low", "InM", "InPM", "O", "OP", "inner"}

type selMember struct {
	name     string
	method   bool
	ptr      bool // pointer receiver
	variadic bool // method takes (xs ...int): visible in method values and method expressions
}

func (m selMember) params() string {
	if m.variadic {
		return "xs ...int"
	}
	return ""
}

type selEmbed struct {
	typ string // S<i>, I<i>, ext.E, ext.EI
	ptr bool
}

type selType struct {
	name    string
	iface   bool
	members []selMember
	embeds  []selEmbed
}

// Occurrence of a name in the embedding graph of a type.
type SelOcc struct {
	Depth  int
	Method bool
	ViaPtr bool // reached through an embedded pointer
	Ext    bool // member of the other package
}

type SelCase struct {
	Src   string
	Type  string
	Name  string
	Mode  string
	Occ   []SelOcc // occurrences of Name below Type (harness-side description, not an oracle)
	Feats []string
}

// SelectorProgram draws a type graph and one selector.
func SelectorProgram(t *rapid.T) *SelCase {
	pick := func(label string, xs []string) string { return xs[rapid.IntRange(0, len(xs)-1).Draw(t, label)] }
	nTypes := rapid.IntRange(2, 7).Draw(t, "ntypes")
	var ts []*selType
	for i := 0; i < nTypes; i++ {
		st := &selType{name: fmt.Sprintf("S%d", i)}
		if i > 0 && rapid.IntRange(0, 5).Draw(t, "iface") == 0 {
			st.iface, st.name = true, fmt.Sprintf("I%d", i)
		}
		used := map[string]bool{}
		nm := rapid.IntRange(0, 3).Draw(t, "nmembers")
		for j := 0; j < nm; j++ {
			name := pick("mname", selNames[:7])
			if used[name] {
				continue
			}
			used[name] = true
			m := selMember{name: name, method: st.iface || rapid.Bool().Draw(t, "ismethod")}
			if m.method && !st.iface {
				m.ptr = rapid.Bool().Draw(t, "ptrrecv")
			}
			if m.method {
				m.variadic = rapid.IntRange(0, 3).Draw(t, "variadic") == 0
				if st.iface {
					// interfaces that embed one another must agree on a method's signature
					m.variadic = name == "N" || name == "y"
				}
			}
			st.members = append(st.members, m)
		}
		ne := rapid.IntRange(0, 2).Draw(t, "nembeds")
		for j := 0; j < ne; j++ {
			var e selEmbed
			k := rapid.IntRange(0, i+1).Draw(t, "embedwhat")
			switch {
			case k < i:
				e = selEmbed{typ: ts[k].name, ptr: !ts[k].iface && rapid.Bool().Draw(t, "embedptr")}
				if st.iface && !ts[k].iface {
					continue
				}
			case k == i:
				if st.iface {
					e = selEmbed{typ: "ext.EI"}
				} else {
					e = selEmbed{typ: []string{"ext.E", "ext.E", "ext.Outer", "ext.OuterP"}[rapid.IntRange(0, 3).Draw(t, "extwhat")], ptr: rapid.Bool().Draw(t, "embedptr")}
				}
			default:
				if st.iface {
					continue
				}
				e = selEmbed{typ: "ext.EI"}
			}
			base := e.typ[strings.LastIndex(e.typ, ".")+1:]
			if used[base] {
				continue
			}
			used[base] = true
			st.embeds = append(st.embeds, e)
		}
		if st.iface && len(st.members) == 0 && len(st.embeds) == 0 {
			// an empty interface is `any`: member access on it is an XGo extension (C11), not a selector
			st.members = append(st.members, selMember{name: "M", method: true})
		}
		ts = append(ts, st)
	}
	byName := map[string]*selType{}
	var b strings.Builder
	b.WriteString("package main\n\nimport \"" + ExtPackagePath + "\"\n\nvar _ ext.E\n\n")
	for _, st := range ts {
		byName[st.name] = st
		if st.iface {
			fmt.Fprintf(&b, "type %s interface {\n", st.name)
			for _, m := range st.members {
				fmt.Fprintf(&b, "\t%s(%s) int\n", m.name, m.params())
			}
			for _, e := range st.embeds {
				fmt.Fprintf(&b, "\t%s\n", e.typ)
			}
			b.WriteString("}\n\n")
			continue
		}
		fmt.Fprintf(&b, "type %s struct {\n", st.name)
		for _, m := range st.members {
			if !m.method {
				fmt.Fprintf(&b, "\t%s int\n", m.name)
			}
		}
		for _, e := range st.embeds {
			if e.ptr {
				fmt.Fprintf(&b, "\t*%s\n", e.typ)
			} else {
				fmt.Fprintf(&b, "\t%s\n", e.typ)
			}
		}
		b.WriteString("}\n\n")
		for _, m := range st.members {
			if m.method {
				recv := st.name
				if m.ptr {
					recv = "*" + recv
				}
				fmt.Fprintf(&b, "func (r %s) %s(%s) int { return 0 }\n\n", recv, m.name, m.params())
			}
		}
	}
	target := ts[rapid.IntRange(0, len(ts)-1).Draw(t, "target")]
	// the names worth asking for: those that occur somewhere below the target, plus the pool
	occ := map[string][]SelOcc{}
	var walk func(st *selType, depth int, viaPtr bool, seen map[string]bool)
	extMembers := map[string][]selMember{
		"ext.E":  {{name: "Pub"}, {name: "priv"}, {name: "A"}, {name: "PubM", method: true}, {name: "privM", method: true}, {name: "PtrM", method: true, ptr: true}},
		"ext.EI": {{name: "IM", method: true}, {name: "im", method: true}},
		"ext.Outer":  {{name: "O"}, {name: "inner"}},
		"ext.OuterP": {{name: "OP"}, {name: "inner"}},
	}
	// members promoted through the unexported embedded type of ext.Outer / ext.OuterP (one level deeper)
	extInner := []selMember{{name: "X"}, {name: "Deep"}, {name: "low"}, {name: "InM", method: true}, {name: "InPM", method: true, ptr: true}}
	walk = func(st *selType, depth int, viaPtr bool, seen map[string]bool) {
		for _, m := range st.members {
			occ[m.name] = append(occ[m.name], SelOcc{Depth: depth, Method: m.method, ViaPtr: viaPtr})
		}
		for _, e := range st.embeds {
			base := e.typ[strings.LastIndex(e.typ, ".")+1:]
			occ[base] = append(occ[base], SelOcc{Depth: depth, ViaPtr: viaPtr})
			if ms, ok := extMembers[e.typ]; ok {
				for _, m := range ms {
					occ[m.name] = append(occ[m.name], SelOcc{Depth: depth + 1, Method: m.method, ViaPtr: viaPtr || e.ptr, Ext: true})
				}
				if e.typ == "ext.Outer" || e.typ == "ext.OuterP" {
					for _, m := range extInner {
						occ[m.name] = append(occ[m.name], SelOcc{Depth: depth + 2, Method: m.method, ViaPtr: viaPtr || e.ptr || e.typ == "ext.OuterP", Ext: true})
					}
				}
				continue
			}
			if seen[e.typ] {
				continue
			}
			seen[e.typ] = true
			walk(byName[e.typ], depth+1, viaPtr || e.ptr, seen)
			delete(seen, e.typ)
		}
	}
	walk(target, 0, false, map[string]bool{target.name: true})
	var cands []string
	for n := range occ {
		cands = append(cands, n)
	}
	sort.Strings(cands)
	cands = append(cands, "A", "M", "priv", "nosuch")
	name := pick("selname", cands)
	modes := []string{"var", "ptr", "call", "mapelem", "assign", "methodexpr", "ptrmethodexpr", "methodvalue"}
	if target.iface {
		modes = []string{"var", "call", "methodexpr", "methodvalue"}
	}
	mode := pick("mode", modes)
	T := target.name
	b.WriteString("var v " + T + "\nvar p *" + T + "\nvar m map[string]" + T + "\nfunc mk() " + T + " { return v }\n\n")
	b.WriteString("func f() {\n")
	switch mode {
	case "var":
		b.WriteString("\t_ = v." + name + "\n")
	case "ptr":
		b.WriteString("\t_ = p." + name + "\n")
	case "call":
		b.WriteString("\t_ = mk()." + name + "\n")
	case "mapelem":
		b.WriteString("\t_ = m[\"k\"]." + name + "\n")
	case "assign":
		b.WriteString("\tv." + name + " = 1\n")
	case "methodexpr":
		b.WriteString("\t_ = " + T + "." + name + "\n")
	case "ptrmethodexpr":
		b.WriteString("\t_ = (*" + T + ")." + name + "\n")
	case "methodvalue":
		b.WriteString("\tg := v." + name + "\n\t_ = g\n")
	}
	b.WriteString("}\n")
	os := occ[name]
	sort.Slice(os, func(i, j int) bool { return os[i].Depth < os[j].Depth })
	c := &SelCase{Src: b.String(), Type: T, Name: name, Mode: mode, Occ: os}
	if len(os) >= 2 {
		c.Feats = append(c.Feats, "name-occurs-twice")
		if os[0].Depth == os[1].Depth {
			c.Feats = append(c.Feats, "equal-depth-duplicate")
		} else {
			c.Feats = append(c.Feats, "different-depths")
		}
	}
	for _, o := range os {
		if o.ViaPtr {
			c.Feats = append(c.Feats, "via-pointer-embedding")
		}
		if o.Ext {
			c.Feats = append(c.Feats, "other-package-member")
		}
	}
	if len(os) == 0 {
		c.Feats = append(c.Feats, "name-absent")
	}
	for _, st := range ts {
		for _, m := range st.members {
			if m.variadic && m.name == name {
				c.Feats = append(c.Feats, "variadic-method-of-that-name")
			}
		}
	}
	return c
}
