// Package gen holds the generators. typedesc.go: a JSON-serialisable description of a Go type,
// a rapid generator for it, and Realize, which builds a fresh go/types object graph from it
// (two realisations are structurally identical but share no composite-type pointers).
package gen

import (
	"fmt"
	"go/token"
	"go/types"
	"sort"
	"strings"

	"pgregory.net/rapid"
)

type Kind string

const (
	KBasic  Kind = "basic"
	KUnsafe Kind = "unsafe.Pointer"
	KNamed  Kind = "named" // reference to a named type of the environment, by name
	KInst   Kind = "inst"  // instantiation of a generic named type of the environment
	KTParam Kind = "tparam"
	KPtr    Kind = "ptr"
	KSlice  Kind = "slice"
	KArray  Kind = "array"
	KMap    Kind = "map"
	KChan   Kind = "chan"
	KFunc   Kind = "func"
	KStruct Kind = "struct"
	KIface  Kind = "iface"
	KAlias  Kind = "alias" // reference to an alias of the environment, by name
)

type Field struct {
	Name     string `json:"name"`
	Embedded bool   `json:"embedded,omitempty"`
	Tag      string `json:"tag,omitempty"`
	T        *Desc  `json:"t"`
}

type Method struct {
	Name string `json:"name"`
	Sig  *Desc  `json:"sig"`
}

type Term struct {
	Tilde bool  `json:"tilde,omitempty"`
	T     *Desc `json:"t"`
}

type TParam struct {
	Name       string `json:"name"`
	Constraint *Desc  `json:"constraint"`
}

// Desc describes a type.
type Desc struct {
	K          Kind     `json:"k"`
	Basic      string   `json:"basic,omitempty"`
	Name       string   `json:"name,omitempty"` // named / alias / tparam reference; generic name for inst
	Elem       *Desc    `json:"elem,omitempty"`
	Key        *Desc    `json:"key,omitempty"`
	Len        int64    `json:"len,omitempty"`
	Dir        int      `json:"dir,omitempty"` // types.ChanDir
	Fields     []Field  `json:"fields,omitempty"`
	Methods    []Method `json:"methods,omitempty"`
	Embeds     []*Desc  `json:"embeds,omitempty"` // embedded interfaces (named or literal)
	Union      []Term   `json:"union,omitempty"`  // one embedded union
	Comparable bool     `json:"comparable,omitempty"`
	Params     []*Desc  `json:"params,omitempty"`
	PNames     []string `json:"pnames,omitempty"`
	Results    []*Desc  `json:"results,omitempty"`
	RNames     []string `json:"rnames,omitempty"`
	Variadic   bool     `json:"variadic,omitempty"`
	TParams    []TParam `json:"tparams,omitempty"` // generic signature
	Args       []*Desc  `json:"args,omitempty"`    // type arguments of inst
}

var BasicNames = []string{"bool", "int", "int8", "int16", "int32", "int64", "uint", "uint8", "uint16", "uint32", "uint64",
	"uintptr", "float32", "float64", "complex64", "complex128", "string"}

var basicByName = func() map[string]*types.Basic {
	m := map[string]*types.Basic{}
	for _, n := range BasicNames {
		m[n] = types.Universe.Lookup(n).Type().(*types.Basic)
	}
	return m
}()

// NamedInfo describes a named (possibly generic) type available to generated types.
type NamedInfo struct {
	Name       string
	Comparable bool
	IsIface    bool
	NTParams   int      // > 0: generic
	TPCons     []string // per type parameter: "any" | "comparable" | "number" (~int|~float64)
	Kind       string   // "basic","struct","iface","slice","map","func","ptr",...  (underlying shape)
	OwnUnder   bool     // usable under ~ (never: named types are not their own underlying type)
}

// Env is what the generator may refer to.
type Env struct {
	Named   []NamedInfo // non-generic and generic named types (by Name)
	Aliases []NamedInfo // alias names (Comparable describes the aliased type)
	TParams []NamedInfo // type parameters in scope (Name, Comparable)
}

type TypeGenOpts struct {
	MaxDepth   int
	NoTParams  bool
	NoGenSig   bool // no generic signatures
	NoUnions   bool // no constraint-only interfaces
	BigArrays  bool
	FancyTags  bool
	NamedParam bool // allow named parameters/results
}

func pick[T any](t *rapid.T, label string, xs []T) T {
	return xs[rapid.IntRange(0, len(xs)-1).Draw(t, label)]
}

// TypeGen draws a type description. comparableOnly restricts to comparable types (map keys).
func (env *Env) TypeGen(t *rapid.T, o TypeGenOpts, depth int, comparableOnly bool) *Desc {
	return env.typ(t, o, depth, comparableOnly, false)
}

func (env *Env) typ(t *rapid.T, o TypeGenOpts, depth int, cmp bool, inGenSig bool) *Desc {
	type choice struct {
		w int
		f func() *Desc
	}
	var cs []choice
	co := o // generic signatures exist only as the type of a declared generic function: top level only
	co.NoGenSig = true
	leafDiv := 1
	if depth >= 2 {
		leafDiv = 4 // keep deep requests deep
	}
	add := func(w int, f func() *Desc) {
		if len(cs) < 6 && depth > 0 { // the first choices are the leaves
			w = (w + leafDiv - 1) / leafDiv
		}
		cs = append(cs, choice{w, f})
	}
	add(6, func() *Desc { return &Desc{K: KBasic, Basic: pick(t, "basic", BasicNames)} })
	add(1, func() *Desc { return &Desc{K: KUnsafe} })
	var named, generic []NamedInfo
	for _, n := range env.Named {
		if cmp && !n.Comparable {
			continue
		}
		if n.NTParams > 0 {
			generic = append(generic, n)
		} else {
			named = append(named, n)
		}
	}
	if len(named) > 0 {
		add(4, func() *Desc { return &Desc{K: KNamed, Name: pick(t, "named", named).Name} })
	}
	var aliases []NamedInfo
	for _, n := range env.Aliases {
		if !cmp || n.Comparable {
			aliases = append(aliases, n)
		}
	}
	if len(aliases) > 0 {
		add(2, func() *Desc { return &Desc{K: KAlias, Name: pick(t, "alias", aliases).Name} })
	}
	var tps []NamedInfo
	for _, n := range env.TParams {
		if !cmp || n.Comparable {
			tps = append(tps, n)
		}
	}
	if len(tps) > 0 && !o.NoTParams {
		add(4, func() *Desc { return &Desc{K: KTParam, Name: pick(t, "tparam", tps).Name} })
	}
	if depth > 0 {
		d := depth - 1
		if len(generic) > 0 {
			add(3, func() *Desc {
				g := pick(t, "generic", generic)
				r := &Desc{K: KInst, Name: g.Name}
				for i := 0; i < g.NTParams; i++ {
					switch g.TPCons[i] {
					case "number":
						r.Args = append(r.Args, &Desc{K: KBasic, Basic: pick(t, "numarg", []string{"int", "float64"})})
					case "comparable":
						r.Args = append(r.Args, env.typ(t, co, d, true, inGenSig))
					default:
						r.Args = append(r.Args, env.typ(t, co, d, false, inGenSig))
					}
				}
				return r
			})
		}
		add(4, func() *Desc { return &Desc{K: KPtr, Elem: env.typ(t, co, d, false, inGenSig)} })
		add(4, func() *Desc {
			lens := []int64{0, 1, 3, 7}
			if o.BigArrays {
				lens = append(lens, 1<<20)
			}
			return &Desc{K: KArray, Len: pick(t, "len", lens), Elem: env.typ(t, co, d, cmp, inGenSig)}
		})
		add(4, func() *Desc {
			return &Desc{K: KChan, Dir: rapid.IntRange(0, 2).Draw(t, "dir"), Elem: env.typ(t, co, d, false, inGenSig)}
		})
		add(4, func() *Desc { return env.structDesc(t, co, d, cmp, inGenSig) })
		add(3, func() *Desc { return env.ifaceDesc(t, co, d, inGenSig, false) })
		if !cmp {
			add(4, func() *Desc { return &Desc{K: KSlice, Elem: env.typ(t, co, d, false, inGenSig)} })
			add(4, func() *Desc {
				return &Desc{K: KMap, Key: env.typ(t, co, d, true, inGenSig), Elem: env.typ(t, co, d, false, inGenSig)}
			})
			add(4, func() *Desc { return env.sigDesc(t, o, d, inGenSig, false) })
		}
	}
	total := 0
	for _, c := range cs {
		total += c.w
	}
	x := rapid.IntRange(0, total-1).Draw(t, "kind")
	for _, c := range cs {
		if x < c.w {
			return c.f()
		}
		x -= c.w
	}
	panic("unreachable")
}

var fieldNames = []string{"a", "b", "c", "X", "Y", "Z", "_"}
var methodNames = []string{"M", "N", "P", "m", "n"}
var tagPool = []string{"", "", "", `json:"a"`, `k:"v w" x:"y"`, "has`backquote", "new\nline", `q"uote`, " ", "cr\rlf\r\n", "trailing\r", "tab\there"}

func (env *Env) structDesc(t *rapid.T, o TypeGenOpts, d int, cmp, inGenSig bool) *Desc {
	n := rapid.IntRange(0, 4).Draw(t, "nfields")
	r := &Desc{K: KStruct}
	used := map[string]bool{}
	for i := 0; i < n; i++ {
		var f Field
		// embedded: a named type or pointer to a (non-pointer, non-interface) named type
		var embeddable []NamedInfo
		for _, ni := range env.Named {
			if ni.NTParams == 0 && (!cmp || ni.Comparable) && !used[ni.Name] {
				embeddable = append(embeddable, ni)
			}
		}
		if len(embeddable) > 0 && rapid.IntRange(0, 4).Draw(t, "embed") == 0 {
			ni := pick(t, "embedded", embeddable)
			fname := ni.Name
			if i := strings.LastIndex(fname, "."); i >= 0 {
				fname = fname[i+1:] // imported type: the field is named by the base name
			}
			if used[fname] {
				continue
			}
			f = Field{Name: fname, Embedded: true, T: &Desc{K: KNamed, Name: ni.Name}}
			if !ni.IsIface && ni.Kind != "ptr" && rapid.Bool().Draw(t, "embedptr") {
				f.T = &Desc{K: KPtr, Elem: f.T}
			}
		} else if !cmp && !used["int"] && rapid.IntRange(0, 9).Draw(t, "embedbasic") == 0 {
			f = Field{Name: "int", Embedded: true, T: &Desc{K: KBasic, Basic: "int"}}
		} else {
			name := pick(t, "fname", fieldNames)
			if name != "_" && used[name] {
				continue
			}
			f = Field{Name: name, T: env.typ(t, o, d, cmp, inGenSig)}
		}
		if f.Name != "_" {
			used[f.Name] = true
		}
		if o.FancyTags {
			f.Tag = pick(t, "tag", tagPool)
		} else {
			f.Tag = pick(t, "tag", tagPool[:6])
		}
		r.Fields = append(r.Fields, f)
	}
	return r
}

func (env *Env) sigDesc(t *rapid.T, o TypeGenOpts, d int, inGenSig, method bool) *Desc {
	r := &Desc{K: KFunc}
	e := env
	if !method && !inGenSig && !o.NoGenSig && !o.NoTParams && rapid.IntRange(0, 5).Draw(t, "generic") == 0 {
		// generic signature: own type parameters, identical up to renaming
		ntp := rapid.IntRange(1, 2).Draw(t, "ntp")
		e2 := *env
		e2.TParams = append([]NamedInfo(nil), env.TParams...)
		for i := 0; i < ntp; i++ {
			name := fmt.Sprintf("S%d", i)
			c := pick(t, "tpcons", []string{"any", "comparable", "number"})
			var cd *Desc
			switch c {
			case "any":
				cd = &Desc{K: KIface}
			case "comparable":
				cd = &Desc{K: KIface, Comparable: true}
			default:
				cd = &Desc{K: KIface, Union: []Term{{Tilde: true, T: &Desc{K: KBasic, Basic: "int"}}, {Tilde: true, T: &Desc{K: KBasic, Basic: "float64"}}}}
			}
			r.TParams = append(r.TParams, TParam{Name: name, Constraint: cd})
			e2.TParams = append(e2.TParams, NamedInfo{Name: name, Comparable: c != "any"})
		}
		e = &e2
		inGenSig = true
	}
	o.NoGenSig = true
	np := rapid.IntRange(0, 3).Draw(t, "nparams")
	named := o.NamedParam && rapid.Bool().Draw(t, "pnamed")
	for i := 0; i < np; i++ {
		r.Params = append(r.Params, e.typ(t, o, d, false, inGenSig))
		if named {
			r.PNames = append(r.PNames, pick(t, "pname", []string{"p", "q", "_", "x"})+fmt.Sprint(i))
		}
	}
	if np > 0 && rapid.IntRange(0, 3).Draw(t, "variadic") == 0 {
		r.Variadic = true
		r.Params[np-1] = &Desc{K: KSlice, Elem: r.Params[np-1]}
	}
	nr := rapid.IntRange(0, 2).Draw(t, "nresults")
	rnamed := o.NamedParam && rapid.Bool().Draw(t, "rnamed")
	for i := 0; i < nr; i++ {
		r.Results = append(r.Results, e.typ(t, o, d, false, inGenSig))
		if rnamed {
			r.RNames = append(r.RNames, fmt.Sprintf("r%d", i))
		}
	}
	return r
}

func (env *Env) ifaceDesc(t *rapid.T, o TypeGenOpts, d int, inGenSig, constraint bool) *Desc {
	r := &Desc{K: KIface}
	nm := rapid.IntRange(0, 3).Draw(t, "nmethods")
	used := map[string]bool{}
	for i := 0; i < nm; i++ {
		name := pick(t, "mname", methodNames)
		if used[name] {
			continue
		}
		used[name] = true
		r.Methods = append(r.Methods, Method{Name: name, Sig: env.sigDesc(t, o, d, inGenSig, true)})
	}
	// embedded interface literal with further (distinct) methods: identical to the flattened form
	if d > 0 && rapid.IntRange(0, 3).Draw(t, "embediface") == 0 {
		e := &Desc{K: KIface}
		name := pick(t, "emname", methodNames)
		if !used[name] {
			used[name] = true
			e.Methods = append(e.Methods, Method{Name: name, Sig: env.sigDesc(t, o, d-1, inGenSig, true)})
		}
		r.Embeds = append(r.Embeds, e)
	}
	if rapid.IntRange(0, 7).Draw(t, "embederror") == 0 && !used["Error"] {
		r.Embeds = append(r.Embeds, &Desc{K: KNamed, Name: "error"})
	}
	return r
}

// ---------------------------------------------------------------------------------------------

// World maps the names used in descriptions to go/types objects.
type World struct {
	Pkg     *types.Package
	Named   map[string]types.Type // *types.Named (possibly generic)
	Aliases map[string]types.Type
	TParams map[string]*types.TypeParam
	// Variation knobs: applied on every composite constructed by Realize.
	PermuteMethods bool   // reverse interface method order
	FlattenEmbeds  bool   // inline embedded interface literals' methods
	PermuteUnion   bool   // reverse union term order
	AbsorbTerms    string // name of a defined type: a union with a ~U term, U its underlying type, gets the (absorbed) term of that type appended
	RenameTParams  string // suffix added to generic-signature type parameter names
	Ctxt           *types.Context
}

func (w *World) clone() *World { c := *w; return &c }

// Realize builds the type described by d.
func (w *World) Realize(d *Desc) types.Type {
	switch d.K {
	case KBasic:
		return basicByName[d.Basic]
	case KUnsafe:
		return types.Typ[types.UnsafePointer]
	case KNamed:
		if d.Name == "error" {
			return types.Universe.Lookup("error").Type()
		}
		if t, ok := w.Named[d.Name]; ok {
			return t
		}
		panic("Realize: unknown named " + d.Name)
	case KAlias:
		if t, ok := w.Aliases[d.Name]; ok {
			return t
		}
		panic("Realize: unknown alias " + d.Name)
	case KTParam:
		if t, ok := w.TParams[d.Name]; ok {
			return t
		}
		panic("Realize: unknown tparam " + d.Name)
	case KInst:
		g := w.Named[d.Name]
		args := make([]types.Type, len(d.Args))
		for i, a := range d.Args {
			args[i] = w.Realize(a)
		}
		inst, err := types.Instantiate(w.Ctxt, g, args, false)
		if err != nil {
			panic("Realize: instantiate: " + err.Error())
		}
		return inst
	case KPtr:
		return types.NewPointer(w.Realize(d.Elem))
	case KSlice:
		return types.NewSlice(w.Realize(d.Elem))
	case KArray:
		return types.NewArray(w.Realize(d.Elem), d.Len)
	case KMap:
		return types.NewMap(w.Realize(d.Key), w.Realize(d.Elem))
	case KChan:
		return types.NewChan(types.ChanDir(d.Dir), w.Realize(d.Elem))
	case KStruct:
		var fs []*types.Var
		var tags []string
		for _, f := range d.Fields {
			fs = append(fs, types.NewField(token.NoPos, w.Pkg, f.Name, w.Realize(f.T), f.Embedded))
			tags = append(tags, f.Tag)
		}
		return types.NewStruct(fs, tags)
	case KFunc:
		return w.sig(d, nil)
	case KIface:
		return w.iface(d)
	}
	panic("Realize: bad kind " + string(d.K))
}

func (w *World) sig(d *Desc, recv *types.Var) *types.Signature {
	ww := w
	var tps []*types.TypeParam
	if len(d.TParams) > 0 {
		ww = w.clone()
		ww.TParams = map[string]*types.TypeParam{}
		for k, v := range w.TParams {
			ww.TParams[k] = v
		}
		for _, tp := range d.TParams {
			tn := types.NewTypeName(token.NoPos, w.Pkg, tp.Name+w.RenameTParams, nil)
			p := types.NewTypeParam(tn, nil)
			ww.TParams[tp.Name] = p
			tps = append(tps, p)
		}
		for i, tp := range d.TParams {
			tps[i].SetConstraint(ww.Realize(tp.Constraint))
		}
	}
	mk := func(ds []*Desc, names []string) *types.Tuple {
		var vs []*types.Var
		for i, p := range ds {
			name := ""
			if i < len(names) {
				name = names[i]
			}
			vs = append(vs, types.NewParam(token.NoPos, w.Pkg, name, ww.Realize(p)))
		}
		return types.NewTuple(vs...)
	}
	return types.NewSignatureType(recv, nil, tps, mk(d.Params, d.PNames), mk(d.Results, d.RNames), d.Variadic)
}

func (w *World) iface(d *Desc) *types.Interface {
	var ms []*types.Func
	var embeds []types.Type
	methods := append([]Method(nil), d.Methods...)
	for _, e := range d.Embeds {
		if e.K == KIface && w.FlattenEmbeds && len(e.Union) == 0 && !e.Comparable && len(e.Embeds) == 0 {
			methods = append(methods, e.Methods...)
			continue
		}
		embeds = append(embeds, w.Realize(e))
	}
	if w.PermuteMethods {
		for i, j := 0, len(methods)-1; i < j; i, j = i+1, j-1 {
			methods[i], methods[j] = methods[j], methods[i]
		}
	}
	for _, m := range methods {
		ms = append(ms, types.NewFunc(token.NoPos, w.Pkg, m.Name, w.sig(m.Sig, nil)))
	}
	if d.Comparable {
		embeds = append(embeds, types.Universe.Lookup("comparable").Type())
	}
	if len(d.Union) > 0 {
		terms := make([]*types.Term, len(d.Union))
		for i, tm := range d.Union {
			terms[i] = types.NewTerm(tm.Tilde, w.Realize(tm.T))
		}
		if nt, ok := w.Named[w.AbsorbTerms]; ok {
			// ~U | N with N defined over U has the type set of ~U: an identical interface, spelled differently
			for _, tm := range terms {
				if tm.Tilde() && types.Identical(tm.Type(), nt.Underlying()) {
					terms = append(terms, types.NewTerm(false, nt))
					break
				}
			}
		}
		if w.PermuteUnion {
			for i, j := 0, len(terms)-1; i < j; i, j = i+1, j-1 {
				terms[i], terms[j] = terms[j], terms[i]
			}
		}
		embeds = append(embeds, types.NewUnion(terms))
	}
	it := types.NewInterfaceType(ms, embeds)
	it.Complete()
	return it
}

// String renders the description compactly (for samples and canonical forms).
func (d *Desc) String() string {
	if d == nil {
		return "<nil>"
	}
	switch d.K {
	case KBasic:
		return d.Basic
	case KUnsafe:
		return "unsafe.Pointer"
	case KNamed, KAlias, KTParam:
		return d.Name
	case KInst:
		var as []string
		for _, a := range d.Args {
			as = append(as, a.String())
		}
		return d.Name + "[" + strings.Join(as, ",") + "]"
	case KPtr:
		return "*" + d.Elem.String()
	case KSlice:
		return "[]" + d.Elem.String()
	case KArray:
		return fmt.Sprintf("[%d]%s", d.Len, d.Elem)
	case KMap:
		return "map[" + d.Key.String() + "]" + d.Elem.String()
	case KChan:
		return []string{"chan ", "chan<- ", "<-chan "}[d.Dir] + "(" + d.Elem.String() + ")"
	case KStruct:
		var fs []string
		for _, f := range d.Fields {
			s := f.Name + " " + f.T.String()
			if f.Embedded {
				s = "embed " + f.T.String()
			}
			if f.Tag != "" {
				s += fmt.Sprintf(" %q", f.Tag)
			}
			fs = append(fs, s)
		}
		return "struct{" + strings.Join(fs, "; ") + "}"
	case KFunc:
		return "func" + d.sigString()
	case KIface:
		var ps []string
		for _, m := range d.Methods {
			ps = append(ps, m.Name+m.Sig.sigString())
		}
		for _, e := range d.Embeds {
			ps = append(ps, e.String())
		}
		if d.Comparable {
			ps = append(ps, "comparable")
		}
		if len(d.Union) > 0 {
			var ts []string
			for _, tm := range d.Union {
				s := tm.T.String()
				if tm.Tilde {
					s = "~" + s
				}
				ts = append(ts, s)
			}
			ps = append(ps, strings.Join(ts, "|"))
		}
		return "interface{" + strings.Join(ps, "; ") + "}"
	}
	return "?"
}

func (d *Desc) sigString() string {
	var b strings.Builder
	if len(d.TParams) > 0 {
		b.WriteString("[")
		for i, tp := range d.TParams {
			if i > 0 {
				b.WriteString(",")
			}
			b.WriteString(tp.Name + " " + tp.Constraint.String())
		}
		b.WriteString("]")
	}
	b.WriteString("(")
	for i, p := range d.Params {
		if i > 0 {
			b.WriteString(",")
		}
		if i < len(d.PNames) {
			b.WriteString(d.PNames[i] + " ")
		}
		if d.Variadic && i == len(d.Params)-1 {
			b.WriteString("..." + p.Elem.String())
		} else {
			b.WriteString(p.String())
		}
	}
	b.WriteString(")")
	if len(d.Results) > 0 {
		b.WriteString("(")
		for i, p := range d.Results {
			if i > 0 {
				b.WriteString(",")
			}
			if i < len(d.RNames) {
				b.WriteString(d.RNames[i] + " ")
			}
			b.WriteString(p.String())
		}
		b.WriteString(")")
	}
	return b.String()
}

// Depth returns the nesting depth of the description.
func (d *Desc) Depth() int {
	if d == nil {
		return 0
	}
	m := 0
	up := func(x *Desc) {
		if x != nil {
			if k := x.Depth(); k > m {
				m = k
			}
		}
	}
	up(d.Elem)
	up(d.Key)
	for _, f := range d.Fields {
		up(f.T)
	}
	for _, x := range d.Methods {
		up(x.Sig)
	}
	for _, x := range d.Embeds {
		up(x)
	}
	for _, x := range d.Union {
		up(x.T)
	}
	for _, x := range d.Params {
		up(x)
	}
	for _, x := range d.Results {
		up(x)
	}
	for _, x := range d.Args {
		up(x)
	}
	switch d.K {
	case KBasic, KUnsafe, KNamed, KAlias, KTParam:
		return 0
	}
	return m + 1
}

// Kinds returns the sorted set of kinds that occur in d.
func (d *Desc) Kinds() []string {
	set := map[string]bool{}
	var walk func(x *Desc)
	walk = func(x *Desc) {
		if x == nil {
			return
		}
		set[string(x.K)] = true
		walk(x.Elem)
		walk(x.Key)
		for _, f := range x.Fields {
			if f.Embedded {
				set["embedded-field"] = true
			}
			if f.Tag != "" {
				set["tag"] = true
			}
			walk(f.T)
		}
		for _, m := range x.Methods {
			walk(m.Sig)
		}
		for _, e := range x.Embeds {
			set["embedded-iface"] = true
			walk(e)
		}
		for _, u := range x.Union {
			set["union"] = true
			walk(u.T)
		}
		if x.Variadic {
			set["variadic"] = true
		}
		if len(x.TParams) > 0 {
			set["generic-sig"] = true
		}
		for _, p := range x.Params {
			walk(p)
		}
		for _, p := range x.Results {
			walk(p)
		}
		for _, p := range x.Args {
			walk(p)
		}
	}
	walk(d)
	var out []string
	for k := range set {
		out = append(out, k)
	}
	sort.Strings(out)
	return out
}
