package gen

// hostile.go: G-hostile, programs meant to break the builder rather than to be valid: extreme
// constants, very deep nesting, and every operation applied to every ill-typed operand kind.

import (
	"fmt"
	"strings"

	"pgregory.net/rapid"
)

const hostilePrelude = `package main

type S struct {
	a int
	p *S
}

func (s S) M() int { return s.a }

type I interface{ M() int }

var (
	vi  int
	vu  uint
	vu8 uint8
	vf  float64
	vc  complex128
	vs  string
	vb  bool
	vxs []int
	vm  map[string]int
	vch chan int
	vp  *int
	vS  S
	vI  I
	va  any
	vfn func(int) int
	var3 [3]int
)

func nop()                {}
func two() (int, string)  { return 1, "" }
func id[T any](x T) T     { return x }
func sum[T ~int | ~float64](xs ...T) T { var s T; return s }

`

// HostileOperands are the operand kinds every operation is applied to.
var HostileOperands = []string{
	"int", "S", "nop()", "two()", "nil", "1 << 70", "-1 << 70", "1e400", `"s"`, "'x'", "2.5", "1i", "true",
	"vi", "vu8", "vf", "vc", "vs", "vb", "vxs", "vm", "vch", "vp", "vS", "vI", "va", "vfn", "var3", "nop", "id", "sum", "S{}", "&vS", "[]int{}", "func() {}", "len", "_",
	"1 << 63", "-1", "0", "0.0", "1 / 3.0", "(1 << 100) >> 98", "\"a\" + \"b\"", "struct{}{}", "[0]int{}", "make", "new(int)", "*vp", "vS.p", "vi / 0", "1.0 << 3", "^0", "-0x8000000000000000",
}

// HostileTemplates have holes $A and $B.
var HostileTemplates = []string{
	"_ = -$A", "_ = +$A", "_ = !$A", "_ = ^$A", "_ = <-$A", "_ = *$A", "_ = &$A",
	"_ = $A + $B", "_ = $A - $B", "_ = $A * $B", "_ = $A / $B", "_ = $A % $B", "_ = $A & $B", "_ = $A | $B", "_ = $A ^ $B", "_ = $A &^ $B",
	"_ = $A << $B", "_ = $A >> $B", "_ = $A == $B", "_ = $A != $B", "_ = $A < $B", "_ = $A >= $B", "_ = $A && $B", "_ = $A || $B",
	"_ = $A[$B]", "_ = $A[$B:]", "_ = $A[:$B]", "_ = $A[$B:$B:$B]", "_ = $A.x", "_ = $A.M", "_ = $A.M()", "_ = $A($B)", "_ = $A($B, $B)", "_ = $A($B...)", "_ = $A.(int)", "_ = $A.($B)",
	"_ = int($A)", "_ = string($A)", "_ = float64($A)", "_ = []byte($A)", "_ = S($A)", "_ = I($A)", "_ = (*int)($A)", "_ = $A($A)",
	"_ = len($A)", "_ = cap($A)", "_ = append($A, $B)", "_ = append($A, $B...)", "_ = copy($A, $B)", "delete($A, $B)", "close($A)", "_ = complex($A, $B)", "_ = real($A)", "_ = imag($A)",
	"_ = min($A, $B)", "_ = max($A)", "_ = new($A)", "_ = make($A)", "_ = make($A, $B)", "_ = make([]int, $A, $B)", "panic($A)", "print($A)", "_ = id($A)", "_ = sum($A, $B)", "_ = id[$A]", "_ = sum[$A]($B)",
	"$A = $B", "$A, $A = $B", "$A += $B", "$A <<= $B", "$A++", "$A--", "x := $A; _ = x", "var x = $A; _ = x", "var x $A; _ = x", "var x $A = $B; _ = x", "const c = $A", "const c $A = $B", "var x [$A]int; _ = x",
	"$A <- $B", "go $A", "defer $A", "go $A($B)", "defer $A($B)", "return $A",
	"if $A {}", "for $A {}", "for range $A {}", "for k := range $A { _ = k }", "for k, v := range $A { _, _ = k, v }", "for $A = range $B {}", "switch $A {}", "switch $A { case $B: }", "switch { case $A: }",
	"switch $A.(type) {}", "switch x := $A.(type) { case $B: _ = x }", "select { case $A <- $B: }", "select { case x := <-$A: _ = x }", "select { case $A = <-$B: }",
	"_ = []int{$A}", "_ = []int{$A: $B}", "_ = [...]int{$A: 1}", "_ = [3]int{$A, $B}", "_ = map[string]int{$A: $B}", "_ = S{$A}", "_ = S{a: $A}", "_ = S{$A: $B}", "_ = $A{}", "_ = $A{$B}", "_ = &$A{}",
	"_ = func() int { return $A }", "_ = func(x $A) {}", "func() { $A }()", "_ = vxs[$A:$B]", "_ = vs[$A]", "_ = var3[$A]", "vm[$A] = $B", "vxs[$A] = $B", "*$A = $B", "$A.a = $B", "L: for { break L; _ = $A }",
}

// HostileGrid returns the k-th program of the deterministic operation x operand grid and the grid size.
func HostileGrid(k int) (src string, size int) {
	no := len(HostileOperands)
	var cells [][3]int // template, a, b
	for ti, t := range HostileTemplates {
		if strings.Contains(t, "$B") {
			for a := 0; a < no; a++ {
				for b := 0; b < no; b++ {
					// the full square is large; keep every pair whose indices differ by a small step
					if a == b || (a+b*7+ti)%9 == 0 {
						cells = append(cells, [3]int{ti, a, b})
					}
				}
			}
		} else {
			for a := 0; a < no; a++ {
				cells = append(cells, [3]int{ti, a, 0})
			}
		}
	}
	size = len(cells)
	if k < 0 || k >= size {
		return "", size
	}
	c := cells[k]
	return HostileFill(HostileTemplates[c[0]], HostileOperands[c[1]], HostileOperands[c[2]]), size
}

// HostileFill instantiates a template inside a function of the hostile prelude.
func HostileFill(tmpl, a, b string) string {
	stmt := strings.ReplaceAll(strings.ReplaceAll(tmpl, "$A", a), "$B", b)
	res := ""
	if strings.HasPrefix(stmt, "return ") {
		res = " int"
	}
	return hostilePrelude + "func f()" + res + " {\n\t" + stmt + "\n}\n"
}

// HostileRandom draws a hostile program: a random template instantiation, an extreme constant
// expression, or a deeply nested construct.
func HostileRandom(t *rapid.T) (src, family string) {
	switch rapid.IntRange(0, 9).Draw(t, "family") {
	case 0, 1, 2:
		tm := HostileTemplates[rapid.IntRange(0, len(HostileTemplates)-1).Draw(t, "tmpl")]
		a := hostileOperand(t, "a")
		b := hostileOperand(t, "b")
		return HostileFill(tm, a, b), "template"
	case 3, 4:
		return hostilePrelude + "func f() {\n\t_ = " + hostileConst(t, rapid.IntRange(1, 5).Draw(t, "cdepth")) + "\n}\n", "extreme-constant"
	case 6:
		// extreme constants where a big-number type is expected (meaningful under the XGo-builtin
		// configuration; plain named types otherwise)
		ctx := []string{"var x builtin.XGo_bigint = %s", "var x builtin.XGo_bigrat = %s", "var x builtin.XGo_bigfloat = %s", "var x = builtin.XGo_bigint(%s)", "var x = builtin.XGo_bigrat(%s)", "var x = builtin.Int128(%s)", "var x = builtin.Uint128(%s)", "var x builtin.XGo_bigint = vbi + %s", "var x = vbr * %s", "var x = vbi << %s"}
		c := ctx[rapid.IntRange(0, len(ctx)-1).Draw(t, "bctx")]
		pre := strings.Replace(hostilePrelude, "package main\n", "package main\n\nimport \"github.com/goplus/gogen/internal/builtin\"\n\nvar (\n\tvbi builtin.XGo_bigint\n\tvbr builtin.XGo_bigrat\n)\n", 1)
		return pre + fmt.Sprintf(c, hostileConst(t, rapid.IntRange(0, 2).Draw(t, "cdepth"))) + "\n", "extreme-constant-bignum"
	case 5:
		ctx := []string{"var x = %s", "const c = %s", "var x [%s]int", "var x int = %s", "var x uint8 = %s", "var x float32 = %s", "var x = vxs[%s]", "var x = vi << %s", "var x = vu8 + %s"}
		c := ctx[rapid.IntRange(0, len(ctx)-1).Draw(t, "ctx")]
		return hostilePrelude + fmt.Sprintf(c, hostileConst(t, rapid.IntRange(1, 4).Draw(t, "cdepth"))) + "\n", "extreme-constant-decl"
	default:
		n := []int{50, 200, 1000, 3000}[rapid.IntRange(0, 3).Draw(t, "n")]
		kind := rapid.IntRange(0, 9).Draw(t, "nestkind")
		if (kind == 4 || kind == 6) && n > 1000 {
			n = 1000 // the printed text grows with the square of the depth (indentation)
		}
		if kind == 5 && n > 300 {
			// the printer needs time cubic in the nesting depth of function literals (DESIGN, C17 notes):
			// 1000 levels take seconds, 3000 more than a minute; keep the case count useful
			n = 300
		}
		return HostileNest(kind, n), fmt.Sprintf("deep-nesting:%d", kind)
	}
}

func hostileOperand(t *rapid.T, label string) string {
	if rapid.IntRange(0, 4).Draw(t, label+"c") == 0 {
		return "(" + hostileConst(t, rapid.IntRange(1, 3).Draw(t, label+"d")) + ")"
	}
	return HostileOperands[rapid.IntRange(0, len(HostileOperands)-1).Draw(t, label)]
}

var hostileAtoms = []string{
	"0", "1", "-1", "255", "256", "1 << 31", "1 << 32", "1 << 62", "1 << 63", "1 << 64", "1 << 70", "1 << 511", "1 << 512", "-1 << 63", "9223372036854775807", "9223372036854775808", "18446744073709551615", "18446744073709551616",
	"1e308", "1e309", "1e-400", "1e1000", "1e2000", "1e-2000", "1e5000", "1.5e-3000", "0.1", "1.5", "2.0", "1i", "1e400i", "'a'", "'\\U0010FFFF'", `"s"`, `""`, "true", "false", "nil",
	"int8(127)", "int8(-128)", "uint8(255)", "uint8(200)", "int64(1) << 62", "uint64(1) << 63", "float32(1e38)", "float64(1e308)", "complex64(1)", "uint(0)", "int32('a')", "string('a')", "vi", "vu", "vu8", "vf",
}

func hostileConst(t *rapid.T, depth int) string {
	if depth <= 0 {
		if rapid.IntRange(0, 30).Draw(t, "huge") == 0 {
			n := []int{100, 1000, 10000}[rapid.IntRange(0, 2).Draw(t, "digits")]
			return strings.Repeat("9", n)
		}
		return hostileAtoms[rapid.IntRange(0, len(hostileAtoms)-1).Draw(t, "atom")]
	}
	switch rapid.IntRange(0, 11).Draw(t, "cform") {
	case 0:
		return "-" + paren2(hostileConst(t, depth-1))
	case 1:
		return "^" + paren2(hostileConst(t, depth-1))
	case 2:
		return "!" + paren2(hostileConst(t, depth-1))
	case 3:
		// shifts with hostile counts
		cnt := []string{"1", "63", "64", "100", "1000", "100000", "1 << 20", "1 << 40", "1 << 62", "1 << 63", "-1", "2.0", "1.5", "'a'", "vu", "vi", "uint8(200)"}[rapid.IntRange(0, 16).Draw(t, "shcnt")]
		return paren2(hostileConst(t, depth-1)) + []string{" << ", " >> "}[rapid.IntRange(0, 1).Draw(t, "shop")] + paren2(cnt)
	case 4:
		fn := []string{"len", "cap", "real", "imag", "complex", "min", "max", "int", "uint8", "int8", "float32", "float64", "string", "complex128", "uint64", "int64", "bool", "uintptr"}[rapid.IntRange(0, 17).Draw(t, "cfn")]
		if fn == "complex" || fn == "min" || fn == "max" {
			return fn + "(" + hostileConst(t, depth-1) + ", " + hostileConst(t, depth-1) + ")"
		}
		return fn + "(" + hostileConst(t, depth-1) + ")"
	default:
		op := []string{"+", "-", "*", "/", "%", "&", "|", "^", "&^", "==", "!=", "<", "<=", ">", ">=", "&&", "||"}[rapid.IntRange(0, 16).Draw(t, "cop")]
		return paren2(hostileConst(t, depth-1)) + " " + op + " " + paren2(hostileConst(t, depth-1))
	}
}

func paren2(s string) string { return "(" + s + ")" }

// HostileNest builds a construct nested n deep.
func HostileNest(kind, n int) string {
	var b strings.Builder
	b.WriteString(hostilePrelude)
	switch kind {
	case 0: // parentheses
		b.WriteString("var x = " + strings.Repeat("(", n) + "vi" + strings.Repeat(")", n) + "\n")
	case 1: // unary chain
		b.WriteString("var x = " + strings.Repeat("-", 0) + strings.Repeat("- ", n) + "vi\n")
	case 2: // left-deep binary
		b.WriteString("var x = vi" + strings.Repeat(" + vi", n) + "\n")
	case 3: // right-deep binary
		b.WriteString("var x = " + strings.Repeat("vi + (", n) + "vi" + strings.Repeat(")", n) + "\n")
	case 4: // nested blocks
		b.WriteString("func f() {\n" + strings.Repeat("{\n", n) + "vi++\n" + strings.Repeat("}\n", n) + "}\n")
	case 5: // nested closures
		b.WriteString("func f() {\n" + strings.Repeat("func() {\n", n) + "vi++\n" + strings.Repeat("}()\n", n) + "}\n")
	case 6: // nested ifs with else
		b.WriteString("func f() {\n" + strings.Repeat("if vb {\n", n) + "vi++\n" + strings.Repeat("} else { vi-- }\n", n) + "}\n")
	case 7: // nested index / call chain
		b.WriteString("var x = " + strings.Repeat("id(", n) + "vi" + strings.Repeat(")", n) + "\n")
	case 8: // nested composite literals / pointer types
		b.WriteString("var x " + strings.Repeat("*", n) + "int\nvar y " + strings.Repeat("[]", n) + "int\n")
	case 10: // layered diamond embedding, n layers: T(i) embeds U(i) and V(i), both embed T(i-1); a member declared nowhere
		b.WriteString("type T0 struct{ a0 int }\n")
		for i := 1; i <= n; i++ {
			fmt.Fprintf(&b, "type U%d struct{ T%d }\ntype V%d struct{ T%d }\ntype T%d struct {\n\tU%d\n\tV%d\n}\n", i, i-1, i, i-1, i, i, i)
		}
		fmt.Fprintf(&b, "var vt T%d\nvar x = vt.nosuch\n", n)
	default: // constant expression chains
		b.WriteString("const c = 1" + strings.Repeat(" * 3 / 3", n) + "\nvar x = \"a\"" + strings.Repeat(" + \"a\"", n) + "\n")
	}
	return b.String()
}
