package gen

// syntax.go: syntactically valid (not necessarily well-typed) Go source covering every node
// kind and every operator precedence / associativity combination, for the printer check (C12).
// Expressions are emitted fully parenthesised; the check removes the parentheses around
// operator operands after parsing, so the printer has to place them itself.

import (
	"fmt"
	"strings"

	"pgregory.net/rapid"
)

type syntaxGen struct {
	t   *rapid.T
	lbl int
}

func (g *syntaxGen) n(label string, lo, hi int) int { return rapid.IntRange(lo, hi).Draw(g.t, label) }
func (g *syntaxGen) pick(label string, xs []string) string {
	return xs[rapid.IntRange(0, len(xs)-1).Draw(g.t, label)]
}

var synBinOps = []string{"||", "&&", "==", "!=", "<", "<=", ">", ">=", "+", "-", "|", "^", "*", "/", "%", "<<", ">>", "&", "&^"}
var synUnOps = []string{"-", "+", "!", "^", "*", "&", "<-"}

func (g *syntaxGen) typ(d int) string {
	if d <= 0 {
		return g.pick("bt", []string{"int", "string", "T", "pkg.T", "any", "error", "byte"})
	}
	switch g.n("tform", 0, 11) {
	case 0:
		return "*" + g.typ(d-1)
	case 1:
		return "[]" + g.typ(d-1)
	case 2:
		return "[3]" + g.typ(d-1)
	case 3:
		return "map[" + g.typ(d-1) + "]" + g.typ(d-1)
	case 4:
		return g.pick("chandir", []string{"chan ", "chan<- ", "<-chan "}) + g.typ(d-1)
	case 5:
		return "chan (" + g.pick("chandir2", []string{"<-chan ", "chan<- "}) + g.typ(d-1) + ")"
	case 6:
		return "func(" + g.typ(d-1) + ", ..." + g.typ(d-1) + ") (" + g.typ(d-1) + ", error)"
	case 7:
		return "struct{ a " + g.typ(d-1) + "; b, c int `json:\"b\"`; T; *pkg.U }"
	case 8:
		return "interface{ M(x " + g.typ(d-1) + ") int; error; ~int | ~string }"
	case 9:
		return "G[" + g.typ(d-1) + ", int]"
	case 10:
		return "func() func() " + g.typ(d-1)
	default:
		return "struct{}"
	}
}

var synNumbers = []string{"0", "00", "017", "0o17", "0O17", "0b101", "0B11", "0x1F", "0X1f", "1_000", "0_7", "0x_1f", "1e3", "1E3", "1e+10", "1E-2", "0e0", "00e2", ".5", "1.", "1.5e3", "0x1p-2", "0X1P+2", "0x1.8p1",
	"3i", "0i", "017i", "0123i", "00i", "0e0i", "0e1i", "00e2i", "0e+3i", "0E0i", "0_0e1i", "012e1i", "1.5i", ".5i", "1.i", "1e3i", "0x1p-2i", "0b11i", "0o7i", "0x1Fi", "1_0i",
	"'\\n'", "'\\x41'", "'\\u00e9'", `"\t\x00"`}

func (g *syntaxGen) expr(d int) string {
	if d <= 0 {
		if g.n("numlit", 0, 5) == 0 {
			// number literals in every spelling the scanner accepts: the printer normalises some of them
			return g.pick("num", synNumbers)
		}
		return g.pick("atom", []string{"a", "b", "c", "x.f", "1", "2.5", "0x1f", "1e3", "'c'", `"s"`, "`raw`", "3i", "nil", "true", "f()", "a[0]", "p.q.r"})
	}
	switch g.n("eform", 0, 19) {
	case 0, 1, 2, 3, 4:
		return "(" + g.expr(d-1) + ") " + g.pick("bop", synBinOps) + " (" + g.expr(d-1) + ")"
	case 5, 6, 7:
		return g.pick("uop", synUnOps) + "(" + g.expr(d-1) + ")"
	case 8:
		// unary directly after unary / binary with the same leading character
		op := g.pick("glue", []string{"-", "+", "&", "<-", "^", "*"})
		return "(" + g.expr(d-1) + ") " + string(op[0]) + " (" + op + "(" + g.expr(d-1) + "))"
	case 9:
		return "f(" + g.expr(d-1) + ", " + g.expr(d-1) + ")"
	case 10:
		return "(" + g.expr(d-1) + ")[" + g.expr(d-1) + "]"
	case 11:
		return "a[" + g.expr(d-1) + ":" + g.expr(d-1) + ":" + g.expr(d-1) + "]"
	case 12:
		return "(" + g.expr(d-1) + ").sel"
	case 13:
		return "(" + g.expr(d-1) + ").(" + g.typ(1) + ")"
	case 14:
		return g.pick("lit", []string{"T{", "[]int{", "map[string]T{", "[...]T{", "&T{", "struct{ a int }{", "pkg.T{"}) + g.pick("elts", []string{"", "a: 1", "1, 2", "k: {1}, l: {2}"}) + "}"
	case 15:
		return "func(x int, ys ...T) (r int) { return " + g.expr(d-1) + " }"
	case 16:
		return g.pick("conv", []string{"(*T)", "(<-chan T)", "(func())", "[]byte", "(chan<- T)", "(func() int)", "(*pkg.T)", "(interface{})", "map[string]int"}) + "(" + g.expr(d-1) + ")"
	case 17:
		return "g[int, T](" + g.expr(d-1) + ")"
	case 18:
		return "f(" + g.expr(d-1) + "...)"
	default:
		return "func() {}"
	}
}

func (g *syntaxGen) block(ind string, d int) string {
	var b strings.Builder
	n := g.n("nst", 0, 3)
	for i := 0; i < n; i++ {
		b.WriteString(g.stmt(ind, d))
	}
	return b.String()
}

func (g *syntaxGen) stmt(ind string, d int) string {
	e := func() string { return g.expr(g.n("ed", 0, 3)) }
	k := g.n("sform", 0, 26)
	if d <= 0 && k >= 8 && k <= 16 {
		k = 0
	}
	in := ind + "\t"
	switch k {
	case 0:
		return ind + "a = " + e() + "\n"
	case 1:
		return ind + "x, y := " + e() + ", " + e() + "\n"
	case 2:
		return ind + "a " + g.pick("aop", []string{"+=", "-=", "*=", "/=", "%=", "&=", "|=", "^=", "<<=", ">>=", "&^="}) + " " + e() + "\n"
	case 3:
		return ind + "a" + g.pick("incdec", []string{"++", "--"}) + "\n"
	case 4:
		return ind + "f(" + e() + ")\n"
	case 5:
		return ind + "ch <- " + e() + "\n"
	case 6:
		return ind + g.pick("godefer", []string{"go", "defer"}) + " f(" + e() + ")\n"
	case 7:
		return ind + "return " + e() + ", " + e() + "\n"
	case 8:
		s := ind + "if " + g.hdr(e()) + " {\n" + g.block(in, d-1)
		if g.n("else", 0, 2) > 0 {
			s += ind + "} else if x := " + g.hdr(e()) + "; x {\n" + g.block(in, d-1) + ind + "} else {\n" + g.block(in, d-1)
		}
		return s + ind + "}\n"
	case 9:
		return ind + "for i := 0; i < " + g.hdr(e()) + "; i++ {\n" + g.block(in, d-1) + ind + "}\n"
	case 10:
		return ind + g.pick("forhead", []string{"for {", "for a < b {", "for range ch {", "for k, v := range m {", "for k = range m {", "for i := range 10 {"}) + "\n" + g.block(in, d-1) + ind + "}\n"
	case 11:
		return ind + "switch x := " + g.hdr(e()) + "; x {\n" + ind + "case 1, 2:\n" + g.block(in, d-1) + in + "fallthrough\n" + ind + "case " + g.hdr(e()) + ":\n" + ind + "default:\n" + g.block(in, d-1) + ind + "}\n"
	case 12:
		return ind + "switch v := x.(type) {\n" + ind + "case int, " + g.typ(1) + ":\n" + g.block(in, d-1) + ind + "case nil:\n" + ind + "default:\n" + in + "_ = v\n" + ind + "}\n"
	case 13:
		return ind + "select {\n" + ind + "case v, ok := <-ch:\n" + in + "_, _ = v, ok\n" + ind + "case ch <- " + e() + ":\n" + g.block(in, d-1) + ind + "case <-done:\n" + ind + "default:\n" + ind + "}\n"
	case 14:
		return ind + "{\n" + g.block(in, d-1) + ind + "}\n"
	case 15:
		g.lbl++
		l := fmt.Sprintf("L%d", g.lbl)
		return strings.TrimSuffix(ind, "\t") + l + ":\n" + ind + "for {\n" + in + g.pick("br", []string{"break", "continue", "goto"}) + " " + l + "\n" + ind + "}\n"
	case 16:
		return ind + "switch {\n" + ind + "}\n" + ind + "select {}\n"
	case 17:
		return ind + "var v " + g.typ(g.n("td", 0, 3)) + " = " + e() + "\n"
	case 18:
		return ind + "var (\n" + in + "p, q = 1, 2\n" + in + "r " + g.typ(1) + "\n" + ind + ")\n"
	case 19:
		return ind + "const c, d = 1, iota\n"
	case 20:
		return ind + "type LT " + g.typ(g.n("td", 0, 3)) + "\n"
	case 21:
		g.lbl++
		return strings.TrimSuffix(ind, "\t") + fmt.Sprintf("E%d:\n", g.lbl) + ind + ";\n" + ind + fmt.Sprintf("goto E%d\n", g.lbl)
	case 22:
		return ind + "x.y[i], *p = " + e() + ", " + e() + "\n"
	case 23:
		return ind + "func() {\n" + g.block(in, d-1) + ind + "}()\n"
	case 25, 26:
		// a composite literal as the whole header expression: the parentheses are part of the tree and
		// must survive printing, whatever the literal's type name looks like
		lit := g.pick("hlit", []string{"T{}", "pkg.T{1, 2}", "G[int]{}", "pkg.G[int, string]{a: 1}", "[]int{1}", "struct{ a int }{}", "map[string]T{}", "a.b.T{x: 1}"})
		head := g.pick("hform", []string{"for range (%s) {", "switch (%s) {", "if x := (%s); x.ok {", "for _, v := range (%s) {", "if (%s).ok {", "for (%s).next() {", "switch x := (%s); x {", "if (%s == x) {", "for (x != %s) {"})
		if d <= 0 || strings.HasPrefix(head, "switch") {
			return ind + fmt.Sprintf(head, lit) + "\n" + ind + "}\n"
		}
		return ind + fmt.Sprintf(head, lit) + "\n" + g.block(in, d-1) + ind + "}\n"
	default:
		return ind + "_ = " + e() + "\n"
	}
}

// hdr keeps composite literals out of statement headers (the grammar needs parentheses there,
// and whether the builder supplies them is the subject of C01, not of the printer check).
func (g *syntaxGen) hdr(e string) string {
	if strings.Contains(e, "{") {
		return "(" + e + ")"
	}
	return e
}

// SyntaxProgram draws a syntactically valid file.
func SyntaxProgram(t *rapid.T) string {
	g := &syntaxGen{t: t}
	var b strings.Builder
	b.WriteString("package p\n\n")
	b.WriteString(g.pick("imports", []string{"", "import \"fmt\"\n\n", "import (\n\t\"a/b\"\n\tc \"d/e\"\n\t_ \"f\"\n)\n\n"}))
	nd := g.n("ndecls", 1, 4)
	for i := 0; i < nd; i++ {
		switch g.n("dform", 0, 7) {
		case 0:
			fmt.Fprintf(&b, "var g%d %s = %s\n\n", i, g.typ(g.n("td", 0, 3)), g.expr(g.n("ed", 0, 4)))
		case 1:
			fmt.Fprintf(&b, "type T%d %s\n\n", i, g.typ(g.n("td", 0, 3)))
		case 2:
			fmt.Fprintf(&b, "type (\n\tA%d = %s\n\tB%d[K comparable, V any] struct {\n\t\tk K\n\t\tv V `tag:\"x y\"`\n\t}\n)\n\n", i, g.typ(2), i)
		case 3:
			fmt.Fprintf(&b, "const (\n\tc%da = iota\n\tc%db\n\tc%dc = %s\n)\n\n", i, i, i, g.expr(2))
		case 4:
			fmt.Fprintf(&b, "func (r *T) m%d(a, b int, c ...string) (x int, err error) {\n%s}\n\n", i, g.block("\t", 3))
		case 5:
			fmt.Fprintf(&b, "func f%d[T any, U ~int | ~string](x T, y U) T {\n%s}\n\n", i, g.block("\t", 3))
		default:
			fmt.Fprintf(&b, "func h%d() {\n%s}\n\n", i, g.block("\t", 4))
		}
	}
	return b.String()
}
