package gen

// generic.go: calls and references to generic functions and types with argument lists that mix
// typed values, untyped constants, nil, function literals and generic function values (C07).

import (
	"fmt"
	"strings"

	"pgregory.net/rapid"
)

// GenericPrelude is the generic library every C07 program starts with.
const GenericPrelude = `package main

type N int

func (n N) String() string { return "" }

type F float64
type SL []int
type MP map[string]int
type Ordered interface {
	~int | ~int8 | ~int64 | ~uint | ~float64 | ~string
}
type Stringer interface{ String() string }
type Box[T any] struct{ V T }
type PairT[K comparable, V any] struct {
	K K
	V V
}

func Id[T any](x T) T                                  { return x }
func MkMap[K comparable, V any](k K, v V) map[K]V      { return nil }
func Sum[T ~int | ~float64](xs ...T) T                 { var z T; return z }
func Max[T Ordered](a, b T) T                          { return a }
func Map[T, U any](xs []T, f func(T) U) []U            { return nil }
func Filter[S ~[]E, E any](s S, f func(E) bool) S      { return s }
func Keys[M ~map[K]V, K comparable, V any](m M) []K    { return nil }
func Apply[T any](x T, fs ...func(T) T) T              { return x }
func Deref[T any](p *T) T                              { var z T; return z }
func Recv[T any](c <-chan T) T                         { var z T; return z }
func Conv[T, U ~int | ~int64](x T) U                   { var z U; return z }
func Str[T Stringer](x T) string                       { return "" }
func Num[T interface{ ~int; String() string }](x T) int { return 0 }
func Zero[T any]() T                                   { var z T; return z }
func Nested[T any](m map[string][]*T) T                { var z T; return z }
func Two[T any](a, b T) T                              { return a }
func Cmp[T comparable](a, b T) bool                    { return false }
func Wrap[T any](x T) Box[T]                           { var z Box[T]; return z }
func Unwrap[T any](b Box[T]) T                         { var z T; return z }
func Compose[A, B, C any](f func(A) B, g func(B) C) func(A) C { return nil }
func Fold[T, A any](xs []T, init A, f func(A, T) A) A  { return init }
func SumS[S ~[]E, E ~int | ~float64](s S) E            { var z E; return z }
func App[S ~[]E, E any](s S, e ...E) S                 { return s }
func Mk[R, A any](a A) R                               { var z R; return z }
func Pick3[R, Q, A any](a A, q Q) R                    { var z R; return z }
func Use(f func(int) string)                           {}
func Use2(f func(int, bool) string)                    {}
func UseG[T any](f func(T) string, x T)                {}

var (
	vi   int
	vi8  int8
	vu   uint
	vf   float64
	vs   string
	vb   bool
	vn   N
	vF   F
	vsl  SL
	vxs  []int
	vss  []string
	vmp  MP
	vm   map[string]int
	vpi  *int
	vps  *string
	vch  chan int
	vrc  <-chan string
	vany any
	verr error
	vfii func(int) int
	vfis func(int) string
	vfib func(int) bool
	vbox Box[int]
	vmsp map[string][]*int
)

`

type genericFn struct {
	name    string
	ntp     int
	nparams int  // fixed parameters
	varia   bool // plus a variadic tail
}

var genericFns = []genericFn{
	{"Id", 1, 1, false}, {"MkMap", 2, 2, false}, {"Sum", 1, 0, true}, {"Max", 1, 2, false}, {"Map", 2, 2, false}, {"Filter", 2, 2, false},
	{"Keys", 3, 1, false}, {"Apply", 1, 1, true}, {"Deref", 1, 1, false}, {"Recv", 1, 1, false}, {"Conv", 2, 1, false}, {"Str", 1, 1, false},
	{"Num", 1, 1, false}, {"Zero", 1, 0, false}, {"Nested", 1, 1, false}, {"Two", 1, 2, false}, {"Cmp", 1, 2, false}, {"Wrap", 1, 1, false},
	{"Unwrap", 1, 1, false}, {"Compose", 3, 2, false}, {"Fold", 2, 3, false}, {"SumS", 2, 1, false}, {"App", 2, 1, true}, {"Mk", 2, 1, false}, {"Pick3", 3, 2, false},
}

var genericArgs = []string{
	// typed values
	"vi", "vi8", "vu", "vf", "vs", "vb", "vn", "vF", "vsl", "vxs", "vss", "vmp", "vm", "vpi", "vps", "vch", "vrc", "vany", "verr", "vfii", "vfis", "vfib", "vbox", "vmsp",
	// untyped constants of every kind
	"1", "2.5", "'a'", `"s"`, "true", "1i", "1 << 40", "0",
	"nil",
	// composite and function literals
	"[]int{1}", "[]string{}", "map[string]int{}", "&vi", "Box[string]{}", "func(x int) int { return x }", "func(x int) string { return \"\" }", "func(x string) bool { return true }", "func(a, b int) int { return a }",
	// generic function values and partial applications
	"Id", "Id[int]", "Max[float64]", "Sum[int]", "Str[N]", "Wrap[int]", "Two",
	// typed constants / conversions
	"int8(1)", "N(2)", "F(1.5)", "float32(1)",
	// nested generic calls
	"Id(vi)", "Id(1)", "Wrap(vs)", "Sum(1, 2)", "Zero[int]()", "SumS[[]float64]", "App[SL]",
}

var genericTypeArgs = []string{"int", "string", "float64", "N", "F", "[]int", "SL", "MP", "int8", "any", "*int", "bool", "func(int) int", "Box[int]", "map[string]int", "uint", "[]uint", "[]string", "[]float64"}

// GenericProgram draws a program with one statement that calls or references a generic function.
func GenericProgram(t *rapid.T) (src string, feats []string) {
	pick := func(label string, xs []string) string { return xs[rapid.IntRange(0, len(xs)-1).Draw(t, label)] }
	if rapid.IntRange(0, 7).Draw(t, "partial-scenario") == 0 {
		// Partial instantiation: the first type argument is given, the rest follows from its core type
		// and must then satisfy its own constraint (SumS[[]string] fails E ~int|~float64).
		f := pick("pfn", []string{"SumS", "App", "Filter", "Keys"})
		targs := []string{"[]int", "[]float64", "SL", "[]string", "[]uint", "[]N", "[]F", "int", "map[string]int", "MP"}
		if f == "Keys" {
			targs = []string{"map[string]int", "MP", "map[[]int]int", "[]int", "map[N]string"}
		}
		inst := f + "[" + pick("ptarg", targs) + "]"
		feats = append(feats, "explicit-partial", "partial-with-core-type-inference")
		var stmt string
		switch rapid.IntRange(0, 3).Draw(t, "pform") {
		case 0:
			stmt = "g := " + inst + "\n\t_ = g"
			feats = append(feats, "function-value")
		case 1:
			arg := pick("parg", []string{"vxs", "vsl", "vss", "vmp", "vm", "nil", "[]float64{1}"})
			extra := ""
			if f == "Filter" {
				extra = ", " + pick("pfarg", []string{"vfib", "nil", "func(x string) bool { return true }"})
			}
			stmt = "r := " + inst + "(" + arg + extra + ")\n\t_ = r"
		case 2:
			stmt = "r := Id(" + inst + ")\n\t_ = r"
			feats = append(feats, "partial-inst-function-arg")
		default:
			stmt = "var g func([]float64) float64 = " + inst + "\n\t_ = g"
			feats = append(feats, "assign-to-typed-func-var")
		}
		return GenericPrelude + fmt.Sprintf("func f() {\n\t%s\n}\n", stmt), feats
	}
	if rapid.IntRange(0, 11).Draw(t, "result-only-scenario") == 0 {
		// Partial instantiation whose explicit type argument occurs only in the result: the remaining
		// type parameters follow from the parameter types of the function type the value is used as.
		feats = append(feats, "explicit-partial", "partial-result-only-type-arg")
		inst := pick("rfn", []string{"Mk[string]", "Mk[int]", "Mk[string, int]", "Pick3[string]", "Pick3[string, bool]", "Pick3[string, int]", "Mk[N]"})
		var stmt string
		switch rapid.IntRange(0, 3).Draw(t, "rform") {
		case 0:
			stmt = pick("ruse", []string{"Use", "Use2"}) + "(" + inst + ")"
			feats = append(feats, "partial-inst-arg-of-plain-func")
		case 1:
			stmt = "UseG(" + inst + ", " + pick("rarg", []string{"vi", "1", "vs", "vb"}) + ")"
			feats = append(feats, "partial-inst-function-arg")
		case 2:
			stmt = "r := " + inst + "(" + pick("rarg", []string{"vi", "1", "vs", "vb, true", "vi, vb"}) + ")\n\t_ = r"
		default:
			stmt = "var g " + pick("rft", []string{"func(int) string", "func(int, bool) string", "func(string) int"}) + " = " + inst + "\n\t_ = g"
			feats = append(feats, "assign-to-typed-func-var")
		}
		return GenericPrelude + fmt.Sprintf("func f() {\n\t%s\n}\n", stmt), feats
	}
	fn := genericFns[rapid.IntRange(0, len(genericFns)-1).Draw(t, "fn")]
	callee := fn.name
	// explicit (full or partial) instantiation
	nexp := 0
	if rapid.IntRange(0, 3).Draw(t, "explicit") == 0 {
		nexp = rapid.IntRange(1, fn.ntp).Draw(t, "nexplicit")
		var tas []string
		for i := 0; i < nexp; i++ {
			tas = append(tas, pick("targ", genericTypeArgs))
		}
		callee += "[" + strings.Join(tas, ", ") + "]"
		if nexp == fn.ntp {
			feats = append(feats, "explicit-full")
		} else {
			feats = append(feats, "explicit-partial")
		}
	}
	form := rapid.IntRange(0, 9).Draw(t, "form")
	var stmt string
	switch {
	case form == 0:
		// reference without a call: function value, possibly assigned to a typed function variable
		if rapid.Bool().Draw(t, "typedvar") {
			stmt = "var g func(int) int = " + callee + "\n\t_ = g"
			feats = append(feats, "assign-to-typed-func-var")
		} else {
			stmt = "g := " + callee + "\n\t_ = g"
			feats = append(feats, "function-value")
		}
	default:
		nargs := fn.nparams
		if fn.varia {
			nargs += rapid.IntRange(0, 3).Draw(t, "nvariadic")
		}
		if rapid.IntRange(0, 9).Draw(t, "wrongcount") == 0 {
			nargs += rapid.IntRange(-1, 1).Draw(t, "delta")
			if nargs < 0 {
				nargs = 0
			}
		}
		var args []string
		for i := 0; i < nargs; i++ {
			a := pick("arg", genericArgs)
			args = append(args, a)
			switch {
			case a == "SumS[[]float64]" || a == "App[SL]":
				feats = append(feats, "partial-inst-function-arg")
			case a == "nil":
				feats = append(feats, "nil-arg")
			case strings.HasPrefix(a, "func("):
				feats = append(feats, "func-literal-arg")
			case a == "Id" || a == "Two" || strings.Contains(a, "[") && (strings.HasPrefix(a, "Id[") || strings.HasPrefix(a, "Max[") || strings.HasPrefix(a, "Sum[") || strings.HasPrefix(a, "Str[") || strings.HasPrefix(a, "Wrap[")):
				feats = append(feats, "generic-function-arg")
			case len(a) > 0 && (a[0] >= '0' && a[0] <= '9' || a[0] == '\'' || a[0] == '"' || a == "true"):
				feats = append(feats, "untyped-const-arg")
			}
		}
		call := callee + "(" + strings.Join(args, ", ")
		if fn.varia && nargs == fn.nparams+1 && rapid.IntRange(0, 5).Draw(t, "spread") == 0 {
			call += "..."
			feats = append(feats, "spread")
		}
		call += ")"
		if form <= 6 {
			stmt = "r := " + call + "\n\t_ = r"
		} else if form == 7 {
			stmt = "var r " + pick("rt", []string{"int", "float64", "string", "N", "[]int", "SL", "any"}) + " = " + call + "\n\t_ = r"
			feats = append(feats, "typed-result-context")
		} else {
			stmt = call
		}
	}
	return GenericPrelude + fmt.Sprintf("func f() {\n\t%s\n}\n", stmt), feats
}
