package gen_test

import (
	"fmt"
	"sort"
	"strings"
	"testing"

	"pgregory.net/rapid"

	"verif/h/gen"
	"verif/h/oracle"
)

// TestProgValidity measures how often G-valid produces a program go/types accepts.
func TestProgValidity(t *testing.T) {
	bad := map[string]int{}
	example := map[string]string{}
	total, ok := 0, 0
	feats := map[string]int{}
	rapid.Check(t, func(t *rapid.T) {
		p := gen.GenProgram(t, gen.ProgOpts{})
		total++
		c := oracle.CheckSources("main", map[string]string{"a.go": p.Src}, oracle.Importer())
		if c.OK() {
			ok++
			for f := range p.Feats {
				feats[f]++
			}
			return
		}
		msg := c.ErrText(1)
		cls := oracle.MsgClass(msg)
		bad[cls]++
		if _, seen := example[cls]; !seen {
			example[cls] = msg
		}
	})
	fmt.Printf("valid %d / %d\n", ok, total)
	var ks []string
	for k := range bad {
		ks = append(ks, k)
	}
	sort.Slice(ks, func(i, j int) bool { return bad[ks[i]] > bad[ks[j]] })
	for _, k := range ks {
		fmt.Printf("%4d %s\n      e.g. %s\n", bad[k], k, example[k])
	}
	var fs []string
	for f := range feats {
		fs = append(fs, f)
	}
	sort.Strings(fs)
	for _, f := range fs {
		fmt.Printf("  %-28s %d\n", f, feats[f])
	}
}

func TestProgDump(t *testing.T) {
	n := 0
	rapid.Check(t, func(t *rapid.T) {
		p := gen.GenProgram(t, gen.ProgOpts{})
		c := oracle.CheckSources("main", map[string]string{"a.go": p.Src}, oracle.Importer())
		if !c.OK() && n < 40 {
			n++
			msg := c.ErrText(1)
			var line int
			fmt.Sscanf(msg[strings.Index(msg, "a.go:")+5:], "%d", &line)
			lines := strings.Split(p.Src, "\n")
			fmt.Printf("%s\n", msg)
			for i := line - 3; i <= line; i++ {
				if i >= 1 && i <= len(lines) {
					fmt.Printf("   %d: %s\n", i, lines[i-1])
				}
			}
		}
	})
}
