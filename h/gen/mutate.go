package gen

// mutate.go: G-mut, type-breaking mutations of valid programs at the syntax level. Whether a
// mutant is really invalid is decided by go/types afterwards; both outcomes are useful.

import (
	"bytes"
	"go/ast"
	"go/format"
	"go/parser"
	"go/token"
	"go/types"
	"strings"

	"pgregory.net/rapid"
)

// Mutation describes what was changed.
type Mutation struct {
	Kind string
	Src  string // mutated source ("" if no site was found)
}

var boundaryLits = []string{"300", "-1", "1 << 70", "1.5", `"str"`, "nil", "'x'", "2i", "0", "1e100", "-129", "65536", "true"}

var opSwaps = map[token.Token][]token.Token{
	token.ADD:  {token.AND, token.REM, token.SHL, token.LAND, token.EQL},
	token.SUB:  {token.REM, token.OR, token.LOR},
	token.MUL:  {token.AND_NOT, token.SHR, token.LSS},
	token.QUO:  {token.REM, token.XOR},
	token.EQL:  {token.LSS, token.ADD, token.LAND},
	token.NEQ:  {token.GTR, token.SUB},
	token.LSS:  {token.ADD, token.LAND},
	token.LAND: {token.ADD, token.LSS},
	token.LOR:  {token.AND, token.EQL},
	token.AND:  {token.LAND, token.QUO},
	token.SHL:  {token.ADD, token.LOR},
}

var typeSwaps = []string{"int", "string", "bool", "float64", "uint8", "[]int", "*S", "S", "N", "map[string]int", "chan int", "I", "error", "func(int) int", "any", "int8", "complex128"}

// Mutate applies one random type-breaking mutation to src.
// overflowPairs: a typed declaration whose constant initialiser is not representable in the type
var overflowPairs = [][2]string{{"uintptr", "-1"}, {"uintptr", "1 << 64"}, {"uint8", "256"}, {"int8", "-129"}, {"uint64", "-1"}, {"int64", "1 << 63"}, {"uint", "1 << 64"}, {"uint16", "'\\U0001F600'"}, {"int8", "'\u00e9'"}, {"uint32", "-1"}, {"int", "1 << 63"}, {"uintptr", "1.5"}}

func Mutate(t *rapid.T, src string) Mutation {
	fset := token.NewFileSet()
	f, err := parser.ParseFile(fset, "a.go", src, parser.SkipObjectResolution)
	if err != nil {
		return Mutation{}
	}
	// only mutate inside generated code (after the prelude): functions named fn*, vars g*
	type site struct {
		kind  string
		apply func()
	}
	var sites []site
	add := func(kind string, apply func()) { sites = append(sites, site{kind, apply}) }
	var idents []*ast.Ident
	inGenerated := func(d ast.Decl) bool {
		switch x := d.(type) {
		case *ast.FuncDecl:
			return strings.HasPrefix(x.Name.Name, "fn") && x.Recv == nil
		case *ast.GenDecl:
			if x.Tok == token.VAR {
				for _, sp := range x.Specs {
					for _, n := range sp.(*ast.ValueSpec).Names {
						if strings.HasPrefix(n.Name, "g") && len(n.Name) > 1 && n.Name[1] >= '0' && n.Name[1] <= '9' {
							return true
						}
					}
				}
			}
		}
		return false
	}
	for _, d := range f.Decls {
		if !inGenerated(d) {
			continue
		}
		ast.Inspect(d, func(n ast.Node) bool {
			switch x := n.(type) {
			case *ast.Ident:
				// predeclared names are left alone: re-declaring `string` or `nil` makes name
				// resolution (the front end's job) fail, not the builder's type checking
				if x.Name != "_" && types.Universe.Lookup(x.Name) == nil {
					idents = append(idents, x)
				}
			}
			return true
		})
	}
	for _, d := range f.Decls {
		if !inGenerated(d) {
			continue
		}
		fd, _ := d.(*ast.FuncDecl)
		ast.Inspect(d, func(n ast.Node) bool {
			switch x := n.(type) {
			case *ast.CallExpr:
				if len(x.Args) >= 2 {
					add("swap-args", func() { x.Args[0], x.Args[1] = x.Args[1], x.Args[0] })
				}
				// T() with no argument is an XGo extension (C11/C14), not a type error: conversions keep their argument
				if len(x.Args) >= 2 || len(x.Args) == 1 && !looksLikeType(x.Fun) {
					add("drop-arg", func() { x.Args = x.Args[:len(x.Args)-1] })
				}
				add("add-arg", func() { x.Args = append(x.Args, &ast.BasicLit{Kind: token.INT, Value: "1"}) })
				if _, isSel := x.Fun.(*ast.SelectorExpr); !isSel {
					add("call-non-func", func() { x.Fun = &ast.ParenExpr{X: &ast.BasicLit{Kind: token.INT, Value: "1"}} })
				}
			case *ast.BinaryExpr:
				if alts, ok := opSwaps[x.Op]; ok {
					add("swap-op", func() { x.Op = alts[rapid.IntRange(0, len(alts)-1).Draw(t, "alt")] })
				}
				add("swap-operands", func() { x.X, x.Y = x.Y, x.X })
				add("operand-lit", func() { x.Y = parseExpr(boundaryLits[rapid.IntRange(0, len(boundaryLits)-1).Draw(t, "blit")]) })
			case *ast.UnaryExpr:
				add("unary-op", func() {
					ops := []token.Token{token.SUB, token.XOR, token.NOT, token.ARROW, token.AND, token.ADD}
					x.Op = ops[rapid.IntRange(0, len(ops)-1).Draw(t, "uop")]
				})
			case *ast.BasicLit:
				add("lit-boundary", func() {
					l := boundaryLits[rapid.IntRange(0, len(boundaryLits)-1).Draw(t, "blit")]
					e := parseExpr(l)
					if bl, ok := e.(*ast.BasicLit); ok {
						*x = *bl
					} else {
						x.Kind, x.Value = token.INT, "300"
					}
				})
			case *ast.AssignStmt:
				if x.Tok == token.DEFINE {
					add("define-to-assign", func() { x.Tok = token.ASSIGN })
				} else if x.Tok == token.ASSIGN {
					add("assign-to-define", func() { x.Tok = token.DEFINE })
					add("assign-to-call", func() {
						x.Lhs[0] = &ast.CallExpr{Fun: ast.NewIdent("two")}
					})
				}
				if len(x.Rhs) >= 1 {
					add("rhs-lit", func() {
						x.Rhs[0] = parseExpr(boundaryLits[rapid.IntRange(0, len(boundaryLits)-1).Draw(t, "blit")])
					})
					add("dup-rhs", func() { x.Rhs = append(x.Rhs, x.Rhs[0]) })
				}
			case *ast.ReturnStmt:
				if len(x.Results) > 0 {
					add("drop-result", func() { x.Results = x.Results[:len(x.Results)-1] })
					add("result-lit", func() {
						x.Results[0] = parseExpr(boundaryLits[rapid.IntRange(0, len(boundaryLits)-1).Draw(t, "blit")])
					})
				}
				add("add-result", func() { x.Results = append(x.Results, &ast.BasicLit{Kind: token.STRING, Value: `"extra"`}) })
			case *ast.ValueSpec:
				if x.Type != nil && len(x.Values) == 1 && len(x.Names) == 1 {
					add("typed-decl-overflow", func() {
						pr := overflowPairs[rapid.IntRange(0, len(overflowPairs)-1).Draw(t, "ovf")]
						x.Type, x.Values[0] = parseExpr(pr[0]), parseExpr(pr[1])
					})
				}
				if x.Type != nil {
					add("decl-type", func() { x.Type = parseExpr(typeSwaps[rapid.IntRange(0, len(typeSwaps)-1).Draw(t, "ty")]) })
				}
			case *ast.CompositeLit:
				if x.Type != nil {
					add("lit-type", func() { x.Type = parseExpr(typeSwaps[rapid.IntRange(0, len(typeSwaps)-1).Draw(t, "ty")]) })
				}
				if len(x.Elts) > 0 {
					add("elt-lit", func() {
						e := parseExpr(boundaryLits[rapid.IntRange(0, len(boundaryLits)-1).Draw(t, "blit")])
						if kv, ok := x.Elts[0].(*ast.KeyValueExpr); ok {
							kv.Value = e
						} else {
							x.Elts[0] = e
						}
					})
				}
			case *ast.RangeStmt:
				add("range-non-rangeable", func() { x.X = parseExpr("vbool") })
				add("range-extra-var", func() {
					if x.Key == nil {
						x.Key, x.Tok = ast.NewIdent("rk"), token.DEFINE
					}
					if x.Value == nil {
						x.Value = ast.NewIdent("rv")
					}
				})
			case *ast.IfStmt:
				add("cond-non-bool", func() { x.Cond = parseExpr("vint") })
			case *ast.ForStmt:
				if x.Cond != nil {
					add("cond-non-bool", func() { x.Cond = parseExpr("vstring") })
				}
			case *ast.IncDecStmt:
				add("incdec-non-numeric", func() { x.X = parseExpr("vstring") })
			case *ast.SendStmt:
				add("send-wrong", func() { x.Value = parseExpr(`"s"`) })
				add("send-recvonly", func() { x.Chan = parseExpr("vrchanstring") })
			case *ast.TypeAssertExpr:
				add("assert-non-iface", func() { x.X = parseExpr("vint") })
				if x.Type != nil {
					add("assert-impossible", func() { x.Type = parseExpr("int8") })
				}
			case *ast.IndexExpr:
				add("index-wrong", func() { x.Index = parseExpr(`"k"`) })
				add("index-non-indexable", func() { x.X = parseExpr("vbool") })
			case *ast.SelectorExpr:
				add("unknown-member", func() { x.Sel = ast.NewIdent("nosuch") })
			case *ast.StarExpr:
				add("deref-non-ptr", func() { x.X = parseExpr("vint") })
			case *ast.BlockStmt:
				for i, st := range x.List {
					// a, b := two()  =>  var a chan bool; a, b := two(): the re-used variable's type does
					// not match the tuple element
					as, ok := st.(*ast.AssignStmt)
					if !ok || as.Tok != token.DEFINE || len(as.Lhs) < 2 || len(as.Rhs) != 1 {
						continue
					}
					id, ok := as.Lhs[rapid.IntRange(0, len(as.Lhs)-2).Draw(t, "reuse")].(*ast.Ident)
					if !ok || id.Name == "_" {
						continue
					}
					i := i
					add("define-reuses-mistyped-var", func() {
						decl := &ast.DeclStmt{Decl: &ast.GenDecl{Tok: token.VAR, Specs: []ast.Spec{&ast.ValueSpec{Names: []*ast.Ident{ast.NewIdent(id.Name)}, Type: parseExpr("chan bool")}}}}
						x.List = append(x.List[:i:i], append([]ast.Stmt{decl}, x.List[i:]...)...)
					})
					break
				}
				if fd != nil && x == fd.Body && len(x.List) > 0 {
					if _, ok := x.List[len(x.List)-1].(*ast.ReturnStmt); ok {
						add("drop-final-return", func() { x.List = x.List[:len(x.List)-1] })
					}
				}
			case *ast.BranchStmt:
				if x.Label == nil && (x.Tok == token.BREAK || x.Tok == token.CONTINUE) {
					add("fallthrough-misplaced", func() { x.Tok = token.FALLTHROUGH })
				}
			case *ast.FuncDecl:
				if x.Type.Results != nil && len(x.Type.Results.List) > 0 {
					add("result-type", func() {
						x.Type.Results.List[0].Type = parseExpr(typeSwaps[rapid.IntRange(0, len(typeSwaps)-1).Draw(t, "ty")])
					})
				}
			}
			return true
		})
	}
	if len(idents) >= 2 {
		add("swap-idents", func() {
			a := idents[rapid.IntRange(0, len(idents)-1).Draw(t, "ia")]
			b := idents[rapid.IntRange(0, len(idents)-1).Draw(t, "ib")]
			a.Name = b.Name
		})
	}
	if len(sites) == 0 {
		return Mutation{}
	}
	s := sites[rapid.IntRange(0, len(sites)-1).Draw(t, "site")]
	s.apply()
	var buf bytes.Buffer
	if err := format.Node(&buf, fset, f); err != nil {
		return Mutation{}
	}
	return Mutation{Kind: s.kind, Src: buf.String()}
}

func parseExpr(s string) ast.Expr {
	e, err := parser.ParseExpr(s)
	if err != nil {
		return ast.NewIdent("vint")
	}
	return stripPos(e)
}

// stripPos leaves positions as parsed (relative to a throw-away file); format.Node copes with
// mixed positions well enough for single expressions.
func stripPos(e ast.Expr) ast.Expr { return e }

var preludeTypeNames = map[string]bool{"N": true, "F": true, "Str": true, "B": true, "S": true, "T2": true, "I": true, "Fn": true, "A": true, "List": true, "Pair": true}

// looksLikeType recognises (syntactically) the type operand of a conversion.
func looksLikeType(e ast.Expr) bool {
	switch x := e.(type) {
	case *ast.Ident:
		if _, ok := types.Universe.Lookup(x.Name).(*types.TypeName); ok {
			return true
		}
		return preludeTypeNames[x.Name]
	case *ast.ParenExpr:
		return looksLikeType(x.X)
	case *ast.StarExpr:
		return looksLikeType(x.X)
	case *ast.IndexExpr:
		return looksLikeType(x.X)
	case *ast.IndexListExpr:
		return looksLikeType(x.X)
	case *ast.ArrayType, *ast.MapType, *ast.ChanType, *ast.FuncType, *ast.StructType, *ast.InterfaceType:
		return true
	}
	return false
}
