package gen_test

import (
	"os"
	"strconv"
	"testing"

	"verif/h/gen"
)

// TestDumpNest writes one nesting program (development aid).
func TestDumpNest(t *testing.T) {
	if os.Getenv("NEST_KIND") == "" {
		t.Skip()
	}
	k, _ := strconv.Atoi(os.Getenv("NEST_KIND"))
	n, _ := strconv.Atoi(os.Getenv("NEST_N"))
	os.WriteFile(os.Getenv("NEST_OUT"), []byte(gen.HostileNest(k, n)), 0o644)
}
