package gen

// constexpr.go: G-const, constant expression trees over every untyped kind, typed constants of
// every basic kind, values at and around every integer boundary, all operators and the
// constant-capable builtins.

import (
	"fmt"
	"strings"

	"pgregory.net/rapid"
)

// ConstPrelude declares the typed constants and variables constant expressions may mention.
const ConstPrelude = `package main

import "unsafe"

type N int
type F float64
type Str string
type S struct {
	a int8
	b int64
	c [3]int16
}

const (
	ci   int     = 7
	ci8  int8    = 100
	cu8  uint8   = 200
	ci64 int64   = 1 << 40
	cu64 uint64  = 1 << 63
	cf32 float32 = 1.5
	cf64 float64 = 2.5
	cc   complex128 = 1 + 2i
	cs   string  = "typed"
	cb   bool    = true
	cn   N       = 3
	cr   rune    = 'x'
	ku   = 5
	kf   = 2.5
	ks   = "untyped"
)

var (
	arr  [5]int
	parr *[4]string
	sl   []int
	st   S
	ch   chan int
	vi   int
	vu   uint
)

func fn() int { return 1 }

`

type constGen struct {
	t     *rapid.T
	typed bool // allow typed constants
	feats map[string]int
}

func (g *constGen) n(label string, lo, hi int) int { return rapid.IntRange(lo, hi).Draw(g.t, label) }
func (g *constGen) pick(label string, xs []string) string {
	return xs[rapid.IntRange(0, len(xs)-1).Draw(g.t, label)]
}

var constIntAtoms = []string{"0", "1", "2", "3", "7", "10", "127", "128", "255", "256", "32767", "32768", "65535", "65536", "2147483647", "2147483648", "4294967295", "4294967296",
	"9223372036854775807", "9223372036854775808", "18446744073709551615", "18446744073709551616", "1 << 70", "0x7f", "0b101", "0o17", "1_000", "'a'", "'\\n'", "'\\U0010FFFF'", "ku"}
var constTypedIntAtoms = []string{"ci", "ci8", "cu8", "ci64", "cu64", "cn", "cr", "int8(127)", "int8(-128)", "uint8(255)", "int16(-32768)", "uint16(65535)", "int32(1 << 30)", "uint32(1 << 31)", "int64(-1 << 63)", "uint64(1<<64 - 1)", "uint(3)", "uintptr(8)", "N(5)", "int(7)", "byte('a')", "rune(65)"}
var constFloatAtoms = []string{"0.0", "0.5", "1.0", "1.5", "2.0", "2.5", "1e2", "1e-2", "3.25", "1e40", "1e308", "0x1p-2", "100.0", "kf"}
var constTypedFloatAtoms = []string{"cf32", "cf64", "float32(0.1)", "float64(1) / 3", "F(2.5)", "float32(1e38)", "float64(16777217)", "float32(16777217)"}

func (g *constGen) intExpr(d int) string {
	if d <= 0 {
		if g.typed && g.n("typedatom", 0, 2) == 0 {
			g.feats["typed-const"]++
			return g.pick("tia", constTypedIntAtoms)
		}
		a := g.pick("ia", constIntAtoms)
		if len(a) > 10 {
			g.feats["wide-const"]++
		}
		return a
	}
	switch g.n("iform", 0, 13) {
	case 0, 1, 2:
		g.feats["int-arith"]++
		return "(" + g.intExpr(d-1) + " " + g.pick("iop", []string{"+", "-", "*"}) + " " + g.intExpr(d-1) + ")"
	case 3:
		g.feats["int-div"]++
		return "(" + g.intExpr(d-1) + " " + g.pick("dop", []string{"/", "%"}) + " " + g.intExpr(d-1) + ")"
	case 4:
		g.feats["int-bitop"]++
		return "(" + g.intExpr(d-1) + " " + g.pick("bop", []string{"&", "|", "^", "&^"}) + " " + g.intExpr(d-1) + ")"
	case 5, 6:
		g.feats["shift"]++
		cnt := g.pick("shc", []string{"0", "1", "3", "7", "8", "31", "32", "63", "64", "100", "ku", "uint(3)", "cu8", "2.0"})
		return "(" + g.intExpr(d-1) + " " + g.pick("shop", []string{"<<", ">>"}) + " " + cnt + ")"
	case 7:
		g.feats["unary"]++
		return g.pick("uop", []string{"-", "^", "+"}) + "(" + g.intExpr(d-1) + ")"
	case 8:
		g.feats["conversion"]++
		return g.pick("ict", []string{"int", "int8", "int16", "int32", "int64", "uint", "uint8", "uint16", "uint32", "uint64", "uintptr", "N"}) + "(" + g.intExpr(d-1) + ")"
	case 9:
		g.feats["len-cap"]++
		return g.pick("lenform", []string{`len("hello")`, `len(ks)`, `len(cs)`, "len(arr)", "cap(arr)", "len(parr)", "len(st.c)", `len("a" + "bc")`, `len([3]int{})`, `len([...]string{"a", "b"})`, `len(Str("xy"))`})
	case 10:
		g.feats["min-max"]++
		return g.pick("mm", []string{"min", "max"}) + "(" + g.intExpr(d-1) + ", " + g.intExpr(d-1) + ")"
	case 11:
		g.feats["unsafe"]++
		return g.pick("unsafe", []string{"unsafe.Sizeof(vi)", "unsafe.Sizeof(st)", "unsafe.Alignof(st.b)", "unsafe.Offsetof(st.b)", "unsafe.Offsetof(st.c)", "unsafe.Sizeof(arr)", "unsafe.Sizeof(cs)", "unsafe.Sizeof(int8(1))", "unsafe.Sizeof(parr)", "unsafe.Alignof(cc)"})
	case 12:
		g.feats["float-to-int"]++
		return "int(" + g.pick("fi", []string{"2.0", "1e2", "4.0 / 2", "kf * 2", "1 << 3"}) + ")"
	default:
		g.feats["real-imag"]++
		return "int(" + g.pick("ri", []string{"real(3 + 4i)", "imag(3 + 4i)", "real(7)"}) + ")"
	}
}

func (g *constGen) floatExpr(d int) string {
	if d <= 0 {
		if g.typed && g.n("typedatom", 0, 2) == 0 {
			g.feats["typed-const"]++
			return g.pick("tfa", constTypedFloatAtoms)
		}
		return g.pick("fa", constFloatAtoms)
	}
	if g.n("mixedminmax", 0, 9) == 0 {
		// min/max of constants of different kinds is a constant of the "largest" kind
		g.feats["min-max-mixed-kinds"]++
		args := []string{g.intExpr(d - 1), g.floatExpr(d - 1)}
		if g.n("mm3", 0, 1) == 0 {
			args = append(args, g.pick("mm3a", []string{"'a'", "1", "2.5", "kf", "ku"}))
		}
		if g.n("mmswap", 0, 1) == 0 {
			args[0], args[1] = args[1], args[0]
		}
		return g.pick("mm", []string{"min", "max"}) + "(" + strings.Join(args, ", ") + ")"
	}
	switch g.n("fform", 0, 6) {
	case 0, 1, 2:
		g.feats["float-arith"]++
		return "(" + g.floatExpr(d-1) + " " + g.pick("fop", []string{"+", "-", "*", "/"}) + " " + g.floatExpr(d-1) + ")"
	case 3:
		g.feats["mixed-int-float"]++
		return "(" + g.intExpr(d-1) + " " + g.pick("fop", []string{"+", "-", "*", "/"}) + " " + g.floatExpr(d-1) + ")"
	case 4:
		g.feats["conversion"]++
		return g.pick("fct", []string{"float32", "float64", "F"}) + "(" + g.floatExpr(d-1) + ")"
	case 5:
		g.feats["real-imag"]++
		return g.pick("ri", []string{"real", "imag"}) + "(" + g.complexExpr(d-1) + ")"
	default:
		g.feats["unary"]++
		return "-(" + g.floatExpr(d-1) + ")"
	}
}

func (g *constGen) complexExpr(d int) string {
	if d <= 0 {
		return g.pick("ca", []string{"1i", "2.5i", "(1 + 2i)", "cc", "complex(1, 2)", "0i", "complex64(1i)"})
	}
	switch g.n("cform", 0, 3) {
	case 0, 1:
		g.feats["complex-arith"]++
		return "(" + g.complexExpr(d-1) + " " + g.pick("cop", []string{"+", "-", "*", "/"}) + " " + g.complexExpr(d-1) + ")"
	case 2:
		g.feats["complex-builtin"]++
		return "complex(" + g.floatExpr(d-1) + ", " + g.floatExpr(d-1) + ")"
	default:
		return "(" + g.floatExpr(d-1) + " + " + g.complexExpr(d-1) + ")"
	}
}

func (g *constGen) stringExpr(d int) string {
	if d <= 0 {
		return g.pick("sa", []string{`"a"`, `""`, `"héllo"`, "`raw`", "ks", "cs", `Str("n")`, `"\x00\n"`})
	}
	switch g.n("sform", 0, 3) {
	case 0, 1:
		g.feats["string-concat"]++
		return "(" + g.stringExpr(d-1) + " + " + g.stringExpr(d-1) + ")"
	case 2:
		g.feats["string-conv"]++
		return "string(" + g.pick("sr", []string{"'a'", "rune(65)", "cr", "0x4e16"}) + ")"
	default:
		return g.stringExpr(d - 1)
	}
}

func (g *constGen) boolExpr(d int) string {
	if d <= 0 {
		return g.pick("ba", []string{"true", "false", "cb"})
	}
	switch g.n("bform", 0, 6) {
	case 0, 1:
		g.feats["compare"]++
		return "(" + g.intExpr(d-1) + " " + g.pick("cmp", []string{"==", "!=", "<", "<=", ">", ">="}) + " " + g.intExpr(d-1) + ")"
	case 2:
		g.feats["compare"]++
		return "(" + g.floatExpr(d-1) + " " + g.pick("cmp", []string{"==", "<", ">="}) + " " + g.floatExpr(d-1) + ")"
	case 3:
		g.feats["compare"]++
		return "(" + g.stringExpr(d-1) + " " + g.pick("cmp", []string{"==", "!=", "<", ">"}) + " " + g.stringExpr(d-1) + ")"
	case 4:
		g.feats["logic"]++
		return "(" + g.boolExpr(d-1) + " " + g.pick("lop", []string{"&&", "||"}) + " " + g.boolExpr(d-1) + ")"
	case 5:
		g.feats["compare"]++
		return "(" + g.complexExpr(d-1) + " == " + g.complexExpr(d-1) + ")"
	default:
		g.feats["logic"]++
		return "!(" + g.boolExpr(d-1) + ")"
	}
}

// nonConst returns an expression that looks constant but is not (calls, receives, variables).
func (g *constGen) nonConst() string {
	g.feats["non-constant"]++
	return g.pick("nc", []string{"len(sl)", "len([]int{1})", "len([2]int{fn()})", "cap(ch)", "vi + 1", "1 << vu", "len([1]int{<-ch})", "fn()", "len(*parr)", "real(complex(float64(vi), 0))", "unsafe.Sizeof(fn())"})
}

// ConstProgram draws a program that declares constants/variables initialised with generated
// constant expression trees.
func ConstProgram(t *rapid.T, typed bool) (src string, feats map[string]int) {
	g := &constGen{t: t, typed: typed, feats: map[string]int{}}
	var b strings.Builder
	b.WriteString(ConstPrelude)
	n := g.n("ndecls", 1, 4)
	for i := 0; i < n; i++ {
		d := g.n("depth", 1, 5)
		var e string
		switch g.n("kind", 0, 7) {
		case 0, 1, 2:
			e = g.intExpr(d)
		case 3:
			e = g.floatExpr(d)
		case 4:
			e = g.stringExpr(d)
		case 5:
			e = g.boolExpr(d)
		case 6:
			e = g.complexExpr(d)
		default:
			e = g.nonConst()
		}
		switch g.n("ctx", 0, 7) {
		case 0, 1, 2:
			fmt.Fprintf(&b, "const k%d = %s\n", i, e)
			g.feats["ctx:const"]++
		case 3, 4:
			fmt.Fprintf(&b, "var v%d = %s\n", i, e)
			g.feats["ctx:var"]++
		case 5:
			fmt.Fprintf(&b, "var a%d [%s]int\n", i, g.intExpr(g.n("adepth", 0, 2)))
			g.feats["ctx:array-length"]++
		case 6:
			fmt.Fprintf(&b, "const (\n\tq%da = iota * %s\n\tq%db\n\tq%dc, q%dd = iota + 1, %s << iota\n\tq%de, q%df\n)\n", i, g.intExpr(1), i, i, i, g.pick("iotab", []string{"1", "3", "ku", "int8(1)"}), i, i)
			g.feats["ctx:iota-block"]++
		default:
			typ := g.pick("ctype", []string{"int8", "uint8", "int", "float32", "float64", "string", "N", "uint64", "complex128", "bool"})
			fmt.Fprintf(&b, "const t%d %s = %s\n", i, typ, e)
			g.feats["ctx:typed-const-decl"]++
		}
	}
	return b.String(), g.feats
}
