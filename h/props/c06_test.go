package props

import (
	"fmt"
	"go/ast"
	"go/parser"
	"go/token"
	"go/types"
	"strings"
	"testing"

	"github.com/goplus/gogen"
	"pgregory.net/rapid"

	"verif/h/drive"
	"verif/h/hx"
	"verif/h/oracle"
)

// ---- C06: overload resolution picks the first applicable candidate and leaves no residue -------

type c06Case struct {
	Kind   string     `json:"kind"`         // func | method | ptrmethod | table | iface | op | cast
	Op     string     `json:"op,omitempty"` // kind op: the binary operator (+ - * / % & | << < >)
	Params [][]string `json:"params"`       // per candidate: parameter declarations ("x int", "xs ...int")
	TParam []string   `json:"tparam"`       // per candidate: type parameter list ("" or "[T any]")
	Args   []string   `json:"args"`
	XGo    bool       `json:"xgo,omitempty"` // a candidate takes a big-number parameter: XGo-builtin configuration
}

// c06Sfx: the index alphabet of overload suffixes (name__0 ... name__9, name__a ... name__z)
const c06Sfx = "0123456789abcdefghijklmnopqrstuvwxyz"

const c06PkgPath = "example.com/verif/ovl"

var c06ParamTypes = []string{"int", "float64", "string", "bool", "[]int", "any", "uint8", "N", "func(int) int", "*int", "error", "int8", "float32", "[]string", "map[string]int"}
var c06Args = []string{"vi", "vf", "vs", "vb", "vxs", "vany", "vu8", "vn", "vfn", "vpi", "verr", "vi8", "1", "2.5", "300", "-1", "'a'", `"s"`, "true", "nil", "func(x int) int { return x }", "gid", "1 << 40", "1.0", "[]int{1}", "ovl.N(3)", "int8(1)"}

var c06ArgsByType = map[string][]string{
	"int": {"vi", "1", "'a'", "-1", "300"}, "float64": {"vf", "2.5", "1", "1.0"}, "string": {"vs", `"s"`}, "bool": {"vb", "true"}, "[]int": {"vxs", "nil", "[]int{1}"},
	"any": {"vany", "vi", "1", `"s"`, "nil", "vxs"}, "uint8": {"vu8", "1", "300", "'a'"}, "N": {"vn", "1", "ovl.N(3)"}, "func(int) int": {"vfn", "func(x int) int { return x }", "gid", "nil"},
	"*int": {"vpi", "nil"}, "error": {"verr", "nil"}, "int8": {"vi8", "1", "300", "int8(1)"}, "float32": {"1", "2.5", "1 << 40"}, "T": {"vi", "vf", "vs", "1", "2.5", "vxs"},
	"...int": {"vi", "1", "'a'"}, "...any": {"vi", `"s"`, "vany", "nil"}, "...string": {"vs", `"s"`}, "...float64": {"vf", "1", "2.5"},
}

func (c *c06Case) names() []string {
	n := len(c.Params)
	out := make([]string, n)
	for k := 0; k < n; k++ {
		switch c.Kind {
		case "method":
			out[k] = fmt.Sprintf("M__%c", c06Sfx[k])
		case "ptrmethod":
			out[k] = fmt.Sprintf("P__%c", c06Sfx[k])
		case "iface":
			out[k] = fmt.Sprintf("IM__%c", c06Sfx[k])
		case "op":
			out[k] = fmt.Sprintf("%s__%c", c06OpNames[c.Op], c06Sfx[k])
		case "cast":
			out[k] = fmt.Sprintf("C_Cast__%c", c06Sfx[k])
		case "optable":
			if k%2 == 0 {
				out[k] = fmt.Sprintf("OpF%d", k) // a package-level function taking the left operand first
			} else {
				out[k] = fmt.Sprintf("OpM%d", k) // a method of T
			}
		case "table":
			if k%2 == 0 {
				out[k] = fmt.Sprintf("Gx%d", k) // explicit name in the XGoo_ table
			} else {
				out[k] = fmt.Sprintf("G__%c", c06Sfx[k]) // empty slot in the table: default name
			}
		default:
			out[k] = fmt.Sprintf("F__%c", c06Sfx[k])
		}
	}
	return out
}

// c06OpNames: the method a binary operator on a named type resolves to (codebuild.go binaryOps)
var c06OpNames = map[string]string{"+": "XGo_Add", "-": "XGo_Sub", "*": "XGo_Mul", "/": "XGo_Quo", "%": "XGo_Rem", "&": "XGo_And", "|": "XGo_Or", "<<": "XGo_Lsh", "<": "XGo_LT", ">": "XGo_GT"}

func (c *c06Case) pkgSrc() string {
	var b strings.Builder
	b.WriteString("package ovl\n\n")
	if c.XGo {
		b.WriteString("import \"github.com/goplus/gogen/internal/builtin\"\n\nvar _ builtin.XGo_bigint\n\n")
	}
	// Never has no value in the argument pool: a candidate with a Never parameter is never applicable
	b.WriteString("const XGoPackage = true\n\ntype N int\n\ntype T struct{ V int }\n\ntype Never struct{ never int }\n\ntype C struct{ c int }\n\n")
	names := c.names()
	if c.Kind == "iface" {
		// overloaded methods of an interface type: the family lives in the method set of I
		for k := range c.Params {
			fmt.Fprintf(&b, "type R%d struct{ r%d int }\n", k, k)
		}
		b.WriteString("type I interface {\n")
		for k, ps := range c.Params {
			fmt.Fprintf(&b, "\t%s(%s) R%d\n", names[k], strings.Join(ps, ", "), k)
		}
		b.WriteString("}\n")
		return b.String()
	}
	for k := range c.Params {
		fmt.Fprintf(&b, "type R%d struct{ r%d int }\n", k, k)
	}
	if c.Kind == "optable" {
		var slots []string
		for k, n := range names {
			if k%2 == 1 {
				n = "." + n
			}
			slots = append(slots, n)
		}
		fmt.Fprintf(&b, "const XGoo_T_%s = %q\n", c06OpNames[c.Op], strings.Join(slots, ","))
	}
	if c.Kind == "table" {
		var slots []string
		for k, n := range names {
			if k%2 == 0 {
				slots = append(slots, n)
			} else {
				slots = append(slots, "")
			}
		}
		fmt.Fprintf(&b, "const XGoo_G = %q\n", strings.Join(slots, ","))
	}
	for k, ps := range c.Params {
		recv := ""
		switch c.Kind {
		case "method":
			recv = "(t T) "
		case "ptrmethod":
			recv = "(t *T) "
		case "op":
			recv = "(t T) "
		}
		tp := ""
		if recv == "" {
			tp = c.TParam[k]
		}
		if c.Kind == "optable" {
			// an operator family listed in an XGoo_ constant that mixes functions and methods
			if k%2 == 0 {
				fmt.Fprintf(&b, "func %s(a T, %s) R%d { return R%d{} }\n", names[k], strings.Join(ps, ", "), k, k)
			} else {
				fmt.Fprintf(&b, "func (t T) %s(%s) R%d { return R%d{} }\n", names[k], strings.Join(ps, ", "), k, k)
			}
			continue
		}
		if c.Kind == "cast" {
			// overloaded type cast of the named type C: every candidate returns C
			fmt.Fprintf(&b, "func %s%s(%s) C { return C{%d} }\n", names[k], tp, strings.Join(ps, ", "), k)
			continue
		}
		fmt.Fprintf(&b, "func %s%s%s(%s) R%d { return R%d{} }\n", recv, names[k], tp, strings.Join(ps, ", "), k, k)
	}
	return b.String()
}

const c06Prelude = `package main

import "example.com/verif/ovl"

var (
	vi   int
	vf   float64
	vs   string
	vb   bool
	vxs  []int
	vany any
	vu8  uint8
	vn   ovl.N
	vfn  func(int) int
	vpi  *int
	verr error
	vi8  int8
	vt   ovl.T
	vpt  *ovl.T
	vc   ovl.C
)

func gid[T any](x T) T { return x }

`

func (c *c06Case) callSrc(callee string) string {
	var recv string
	pre := c06Prelude
	switch c.Kind {
	case "method", "ptrmethod":
		recv = "vt." + callee
	case "iface":
		pre += "var vif ovl.I\n\n"
		recv = "vif." + callee
	case "op", "optable":
		if callee == c.overloadName() { // the overloaded operator itself: vt <op> arg
			return pre + "func f() {\n\t_ = vt " + c.Op + " (" + strings.Join(c.Args, ", ") + ")\n}\n"
		}
		recv = "vt." + callee
		if strings.HasPrefix(callee, "OpF") {
			return pre + "func f() {\n\t_ = ovl." + callee + "(" + strings.Join(append([]string{"vt"}, c.Args...), ", ") + ")\n}\n"
		}
	default:
		recv = "ovl." + callee
	}
	return pre + "func f() {\n\t_ = " + recv + "(" + strings.Join(c.Args, ", ") + ")\n}\n"
}

func (c *c06Case) overloadName() string {
	switch c.Kind {
	case "method":
		return "M"
	case "ptrmethod":
		return "P"
	case "table":
		return "G"
	case "iface":
		return "IM"
	case "op", "optable":
		return c06OpNames[c.Op]
	case "cast":
		return "C" // ovl.C(args): the cast of the named type C
	}
	return "F"
}

type callRec struct{ objs []types.Object }

func (r *callRec) Member(id ast.Node, obj types.Object) {}
func (r *callRec) Call(fn ast.Node, obj types.Object)   { r.objs = append(r.objs, obj) }

// c06Build drives `callee(args)` through the builder; returns the emitted call (callee name,
// argument text), the reported result type and the recorded call object.
func c06Build(c *c06Case, callee string) (res *drive.Result, emittedCallee, emittedArgs, resultType string, recorded string) {
	src := c.callSrc(callee)
	fset := token.NewFileSet()
	f, err := parser.ParseFile(fset, "c.go", src, parser.SkipObjectResolution)
	if err != nil {
		return nil, "", "", "", ""
	}
	rec := &callRec{}
	call := c06RHS(f) // the call (or, for an overloaded operator, the binary expression)
	if call == nil {
		return nil, "", "", "", ""
	}
	res = drive.Build(fset, []*ast.File{f}, map[string][]byte{"c.go": []byte(src)}, drive.Options{Importer: oracle.NewImporter(), PkgPath: "main", Recorder: rec, XGo: c.XGo,
		Setup: func(d *drive.Driver) {
			d.Trace = func(e ast.Expr, el *gogen.Element, ref bool) {
				if e == call && el.Type != nil {
					resultType = oracle.TypeKey(el.Type)
				}
			}
		}})
	if !res.Accepted() {
		return res, "", "", resultType, ""
	}
	of, err := parser.ParseFile(token.NewFileSet(), "o.go", res.Output[""], parser.SkipObjectResolution)
	if err != nil {
		return res, "?unparsable", "", resultType, ""
	}
	orhs := c06RHS(of)
	for {
		pe, ok := orhs.(*ast.ParenExpr)
		if !ok {
			break
		}
		orhs = pe.X
	}
	if _, ok := orhs.(*ast.CallExpr); !ok && orhs != nil {
		return res, "?not-a-call:" + types.ExprString(orhs), "", resultType, ""
	}
	ast.Inspect(orhs, func(n ast.Node) bool {
		if ce, ok := n.(*ast.CallExpr); ok && emittedCallee == "" {
			if sel, ok := ce.Fun.(*ast.SelectorExpr); ok {
				emittedCallee = sel.Sel.Name
			} else if ix, ok := ce.Fun.(*ast.IndexExpr); ok {
				if sel, ok := ix.X.(*ast.SelectorExpr); ok {
					emittedCallee = sel.Sel.Name
				}
			}
			var as []string
			for i, a := range ce.Args {
				if i == 0 && (c.Kind == "op" || c.Kind == "optable") && (c06IsMethodExpr(ce.Fun) || strings.HasPrefix(emittedCallee, "OpF")) {
					// an overloaded operator is emitted as the method expression (ovl.T).XGo_Add__k(vt, y):
					// the first argument is the receiver, i.e. the left operand
					if types.ExprString(a) != "vt" {
						as = append(as, "?receiver:"+types.ExprString(a))
					}
					continue
				}
				for {
					pe, ok := a.(*ast.ParenExpr)
					if !ok {
						break
					}
					a = pe.X // redundant parentheses around an argument are not residue
				}
				as = append(as, types.ExprString(a))
			}
			emittedArgs = strings.Join(as, " , ")
			if ce.Ellipsis.IsValid() {
				emittedArgs += " ..."
			}
		}
		return true
	})
	for _, o := range rec.objs {
		if o != nil && strings.Contains(o.Name(), "__") || o != nil && strings.HasPrefix(o.Name(), "Gx") || o != nil && strings.HasPrefix(o.Name(), "Op") {
			recorded = o.Name()
		}
	}
	return
}

// c06IsMethodExpr: fun is T.m / (T).m / pkg.T.m, not v.m for the prelude variable vt
func c06IsMethodExpr(fun ast.Expr) bool {
	sel, ok := fun.(*ast.SelectorExpr)
	if !ok {
		return false
	}
	x := sel.X
	paren := false
	for {
		pe, ok := x.(*ast.ParenExpr)
		if !ok {
			break
		}
		x, paren = pe.X, true
	}
	_, isSel := x.(*ast.SelectorExpr) // ovl.T
	return isSel || paren
}

// c06RHS returns the right-hand side of the single assignment `_ = X` in func f.
func c06RHS(f *ast.File) ast.Expr {
	for _, d := range f.Decls {
		if fd, ok := d.(*ast.FuncDecl); ok && fd.Name.Name == "f" && fd.Body != nil && len(fd.Body.List) == 1 {
			if as, ok := fd.Body.List[0].(*ast.AssignStmt); ok && len(as.Rhs) == 1 {
				return as.Rhs[0]
			}
		}
	}
	return nil
}

func enclosingFunc(f *ast.File, n ast.Node) string {
	for _, d := range f.Decls {
		if fd, ok := d.(*ast.FuncDecl); ok && n.Pos() >= fd.Pos() && n.End() <= fd.End() {
			return fd.Name.Name
		}
	}
	return ""
}

func c06Eval(c *c06Case) (sig, msg string, expected int, feats []string) {
	oracle.RegisterSource(c06PkgPath, c.pkgSrc())
	// is the family itself valid Go?
	if pc := oracle.CheckSources(c06PkgPath, map[string]string{"p.go": c.pkgSrc()}, oracle.NewImporter()); !pc.OK() {
		return "", "", -2, []string{"generator_unsound"}
	}
	names := c.names()
	expected = -1
	applicable := make([]bool, len(names))
	for k, n := range names {
		chk := oracle.CheckSources("main", map[string]string{"c.go": c.callSrc(n)}, oracle.NewImporter())
		applicable[k] = chk.OK()
		if applicable[k] && expected < 0 {
			expected = k
		}
	}
	res, callee, args, rtype, recorded := c06Build(c, c.overloadName())
	if res == nil {
		return "", "", -2, []string{"generator_unsound"}
	}
	shape := fmt.Sprintf("kind=%s|n=%d|expected=%d", c.Kind, len(names), expected)
	for _, a := range c.Args {
		if a == "gid" {
			shape += "|generic-func-arg"
			break
		}
	}
	if res.PanicKind == "runtime" || res.PanicKind == "other" {
		return "overload-fault|" + shape, fmt.Sprintf("run-time fault: %v\n%s", res.Panic, firstLines(res.Stack, 20)), expected, nil
	}
	if expected > 0 {
		feats = append(feats, "earlier-candidates-rejected")
	}
	if expected >= 10 {
		feats = append(feats, "candidate-index>=10")
	}
	if c.XGo {
		for k := 0; k < expected && k < len(c.Params); k++ {
			if len(c.Params[k]) > 0 && strings.HasSuffix(c.Params[k][0], "XGo_bigint") {
				feats = append(feats, "rejected-candidate-with-big-number-param")
				break
			}
		}
	}
	if expected < 0 && c.Kind == "cast" && len(c.Args) == 0 {
		// C() without a zero-parameter cast candidate is the documented zero-value form T() (decided by C14)
		return "", "", -3, []string{"cast-zero-value-form"}
	}
	if expected < 0 {
		feats = append(feats, "none-applicable")
		if res.Accepted() {
			return "overload-accepts-inapplicable|" + shape + "|chose=" + callee, fmt.Sprintf("no candidate accepts the arguments (%s) but the builder emitted a call to %s", strings.Join(c.Args, ", "), callee), expected, feats
		}
		return "", "", expected, feats
	}
	if !res.Accepted() {
		return "overload-rejects-applicable|" + shape + "|" + normMsg(res.ErrText()), fmt.Sprintf("candidate %s accepts the arguments (%s) but the builder rejected the call: %s", names[expected], strings.Join(c.Args, ", "), res.ErrText()), expected, feats
	}
	if callee != names[expected] {
		k := -1
		for i, n := range names {
			if n == callee {
				k = i
			}
		}
		rel := "later"
		if k >= 0 && k < expected {
			rel = "earlier-inapplicable"
		}
		return fmt.Sprintf("overload-wrong-candidate|%s|chose=%s", shape, rel), fmt.Sprintf("arguments (%s): the first applicable candidate is %s, the builder emitted a call to %s", strings.Join(c.Args, ", "), names[expected], callee), expected, feats
	}
	wantType := fmt.Sprintf("%s.R%d", c06PkgPath, expected)
	if c.Kind == "cast" {
		wantType = c06PkgPath + ".C"
	}
	if rtype != wantType {
		return "overload-result-type|" + shape, fmt.Sprintf("chosen candidate %s returns %s, the builder reports %s", callee, wantType, rtype), expected, feats
	}
	if recorded != "" && recorded != names[expected] {
		return "overload-recorded|" + shape, fmt.Sprintf("Recorder.Call got %s, chosen %s", recorded, names[expected]), expected, feats
	}
	out := oracle.CheckSources("main", map[string]string{"o.go": res.Output[""]}, oracle.NewImporter())
	if !out.OK() {
		return "overload-output-ill-typed|" + shape + "|" + oracle.MsgClass(out.ErrText(1)), "emitted call rejected by go/types: " + out.ErrText(2), expected, feats
	}
	// no residue: the same arguments as when only the chosen candidate is called
	_, _, directArgs, _, _ := c06Build(c, names[expected])
	if directArgs != args {
		return "overload-residue|" + shape, fmt.Sprintf("argument expressions differ from a direct call of %s:\n  via overload: %s\n  direct:       %s", names[expected], args, directArgs), expected, feats
	}
	return "", "", expected, feats
}

func TestC06(t *testing.T) {
	r := hx.Start(t, "C06")
	r.SetRule("generated overload families in a synthetic XGo package: 1-6 (one case in eight: 11-14) candidates as package functions by __k suffix, as an XGoo_ table with explicit names and empty slots, as methods with value / pointer receivers, as methods of an interface type, as overloaded binary operators of a named type (XGo_Add__k ..., written vt + y; also families listed in an XGoo_T_XGo_Add constant that mix package-level functions and methods), or as overloaded type casts of a named type (C_Cast__k, written ovl.C(args); C() without a zero-parameter candidate is the zero-value form and left to C14); parameter lists of 0-3 parameters from 15 types (numeric kinds incl. int8/uint8/float32, named int, any, slices, maps, function types, pointers, error), variadic tails (...int, ...any) and generic candidates ([T any], [T ~int|~float64]); argument lists of 0-3 arguments from typed values, untyped constants (incl. 300, -1, 1<<40, rune, float), nil, function literals, a generic function value, typed constants. Model: candidate k is applicable iff go/types accepts an explicit call of it with the same arguments; expected = least applicable k. Checks: emitted callee, Recorder.Call object and reported result type are candidate expected's; none applicable => rejected; emitted argument expressions equal those of a direct call of the chosen candidate (no residue); the emitted call type-checks. Non-trivial: expected >= 1 (earlier candidates were tried and rejected) or none applicable; distinct by (family, arguments).")
	r.Assume("go/types decides applicability of each concrete candidate", "suffix families are contiguous from 0 (documented precondition of XGo packages)")
	defer r.Done()
	eval := func(c *c06Case) (string, string) {
		sig, msg, _, _ := c06Eval(c)
		return sig, msg
	}
	if r.Replay != "" {
		var c c06Case
		if err := r.ReplayInput(&c); err != nil {
			t.Fatal(err)
		}
		r.Eval()
		if sig, msg := eval(&c); sig != "" {
			r.Report(&c, sig, "%s", msg)
		}
		return
	}
	if r.Shard == 0 {
		for _, f := range r.Findings() {
			var c c06Case
			if f.Replay == "" || r.LoadReplay(f, &c) != nil {
				continue
			}
			r.Eval()
			sig, msg := eval(&c)
			switch {
			case sig == "":
			case f.Status == "known" && f.Match(sig):
				r.KnownLine(f)
			default:
				r.Report(&c, sig, "replay of %s finding %s: %s", f.Status, f.ID, msg)
			}
		}
	}
	r.Check(t, "overloads", r.N(4000, 100000), func(t *rapid.T) {
		c := &c06Case{Kind: pick(t, "kind", []string{"func", "func", "table", "method", "ptrmethod", "iface", "op", "cast", "optable"})}
		if c.Kind == "op" || c.Kind == "optable" {
			c.Op = pick(t, "op", []string{"+", "-", "*", "/", "%", "&", "|", "<<", "<", ">"})
		}
		n := rapid.IntRange(1, 6).Draw(t, "ncand")
		if rapid.IntRange(0, 7).Draw(t, "bigfamily") == 0 {
			n = rapid.IntRange(11, 14).Draw(t, "ncandbig") // reaches the letters of the suffix alphabet
		}
		for k := 0; k < n; k++ {
			np := rapid.IntRange(0, 3).Draw(t, "nparams")
			if c.Kind == "op" || c.Kind == "optable" {
				np = 1 // a binary operator method takes the right operand
			}
			var ps []string
			tp := ""
			if k < n-1 && c.Kind != "op" && c.Kind != "optable" && rapid.IntRange(0, 9).Draw(t, "bigparam") == 0 {
				// A candidate that is tried, rewrites an untyped constant argument for its big-number
				// parameter, and then fails on its Never parameter: nothing of it may remain.
				ps = append(ps, "p0 builtin.XGo_bigint")
				if rapid.Bool().Draw(t, "bigmid") {
					ps = append(ps, "p1 "+pick(t, "ptype", c06ParamTypes))
				}
				ps = append(ps, fmt.Sprintf("p%d Never", len(ps)))
				c.Params = append(c.Params, ps)
				c.TParam = append(c.TParam, "")
				c.XGo = true
				continue
			}
			g := (c.Kind == "func" || c.Kind == "table" || c.Kind == "cast") && rapid.IntRange(0, 5).Draw(t, "generic") == 0
			for i := 0; i < np; i++ {
				ty := pick(t, "ptype", c06ParamTypes)
				if g && i == 0 {
					ty = "T"
				}
				if i == np-1 && c.Kind != "op" && c.Kind != "optable" && rapid.IntRange(0, 4).Draw(t, "variadic") == 0 {
					ty = "..." + pick(t, "vtype", []string{"int", "any", "string", "float64"})
				}
				ps = append(ps, fmt.Sprintf("p%d %s", i, ty))
			}
			if g && np > 0 {
				tp = pick(t, "tpl", []string{"[T any]", "[T ~int | ~float64]", "[T comparable]"})
			}
			c.Params = append(c.Params, ps)
			c.TParam = append(c.TParam, tp)
		}
		if rapid.IntRange(0, 2).Draw(t, "aim") > 0 {
			// aim at one candidate: an argument of each of its parameter types (earlier candidates may
			// or may not accept them too)
			target := c.Params[rapid.IntRange(0, n-1).Draw(t, "target")]
			for _, p := range target {
				ty := p[strings.Index(p, " ")+1:]
				vs, ok := c06ArgsByType[ty]
				if !ok {
					vs = c06Args
				}
				if strings.HasPrefix(ty, "...") {
					for k := 0; k < rapid.IntRange(0, 2).Draw(t, "nvar"); k++ {
						c.Args = append(c.Args, pick(t, "varg", vs))
					}
					continue
				}
				c.Args = append(c.Args, pick(t, "arg", vs))
			}
		} else {
			na := rapid.IntRange(0, 3).Draw(t, "nargs")
			if c.Kind == "op" || c.Kind == "optable" {
				na = 1
			}
			for i := 0; i < na; i++ {
				c.Args = append(c.Args, pick(t, "arg", c06Args))
			}
		}
		sig, msg, expected, feats := c06Eval(c)
		r.Eval()
		if expected == -2 {
			r.Class("generator_unsound")
			return
		}
		if expected == -3 {
			r.Class(feats...)
			return
		}
		r.Class("kind:" + c.Kind)
		r.Class(fmt.Sprintf("expected:%d", expected))
		if sig != "" {
			if f := r.MatchKnown(sig); f != nil {
				r.Known(f)
				return
			}
			r.Fail(t, c, sig, "%s", msg)
		}
		r.Class(feats...)
		if expected != 0 {
			r.Nontrivial(fmt.Sprint(c))
		}
		r.Sample(func() any { return map[string]any{"case": c, "expected_candidate": expected} })
	})
}
