package props

import (
	"fmt"
	"go/token"
	"go/types"
	"sort"
	"strings"
	"testing"

	"github.com/goplus/gogen"
	"github.com/goplus/gogen/typeutil"
	"pgregory.net/rapid"

	"verif/h/gen"
	"verif/h/hx"
)

// ---- C19: the type-keyed map behaves as a map over type identity ------------------------------

type c19Op struct {
	Op  string `json:"op"` // set delete at len keys iterate string iterdel nilread
	Key int    `json:"key,omitempty"`
	Val int    `json:"val,omitempty"`
	Del int    `json:"del,omitempty"` // iterdel: pool key to delete during the iteration
}

type c19Case struct {
	Descs []*gen.Desc `json:"descs"`
	Ops   []c19Op     `json:"ops"`
}

// c19World builds the named types, aliases and free type parameters descriptions may refer to.
// A second world built with the same call has different objects (its named types are not identical
// to the first world's).
func c19World() (*gen.World, *gen.Env) {
	pkg := types.NewPackage("example.com/p", "p")
	w := &gen.World{Pkg: pkg, Named: map[string]types.Type{}, Aliases: map[string]types.Type{}, TParams: map[string]*types.TypeParam{}, Ctxt: nil}
	env := &gen.Env{}
	named := func(name string, under types.Type, ni gen.NamedInfo) *types.Named {
		tn := types.NewTypeName(token.NoPos, pkg, name, nil)
		n := types.NewNamed(tn, under, nil)
		w.Named[name] = n
		ni.Name = name
		env.Named = append(env.Named, ni)
		return n
	}
	intT := types.Typ[types.Int]
	named("N0", intT, gen.NamedInfo{Comparable: true, Kind: "basic"})
	n1 := named("N1", types.NewStruct([]*types.Var{types.NewField(0, pkg, "a", intT, false)}, nil), gen.NamedInfo{Comparable: true, Kind: "struct"})
	named("N2", types.NewSlice(intT), gen.NamedInfo{Kind: "slice"})
	sigM := types.NewSignatureType(nil, nil, nil, nil, nil, false)
	it := types.NewInterfaceType([]*types.Func{types.NewFunc(0, pkg, "M", sigM)}, nil)
	it.Complete()
	named("I0", it, gen.NamedInfo{Comparable: true, IsIface: true, Kind: "iface"})
	named("P0", types.NewPointer(intT), gen.NamedInfo{Comparable: true, Kind: "ptr"})
	// generics
	mkGeneric := func(name string, cons []string, under func(tps []*types.TypeParam) types.Type, comparable bool) {
		tn := types.NewTypeName(token.NoPos, pkg, name, nil)
		n := types.NewNamed(tn, nil, nil)
		var tps []*types.TypeParam
		for i, c := range cons {
			var ct types.Type
			switch c {
			case "any":
				ct = types.Universe.Lookup("any").Type()
			case "comparable":
				ct = types.Universe.Lookup("comparable").Type()
			default:
				u := types.NewUnion([]*types.Term{types.NewTerm(true, intT), types.NewTerm(true, types.Typ[types.Float64])})
				ci := types.NewInterfaceType(nil, []types.Type{u})
				ci.Complete()
				ct = ci
			}
			tps = append(tps, types.NewTypeParam(types.NewTypeName(0, pkg, fmt.Sprintf("T%d", i), nil), ct))
		}
		n.SetTypeParams(tps)
		n.SetUnderlying(under(tps))
		w.Named[name] = n
		env.Named = append(env.Named, gen.NamedInfo{Name: name, NTParams: len(cons), TPCons: cons, Comparable: comparable, Kind: "generic"})
	}
	mkGeneric("G0", []string{"any"}, func(tps []*types.TypeParam) types.Type {
		return types.NewStruct([]*types.Var{types.NewField(0, pkg, "x", types.NewPointer(tps[0]), false)}, nil)
	}, true)
	mkGeneric("G1", []string{"comparable", "any"}, func(tps []*types.TypeParam) types.Type { return types.NewMap(tps[0], tps[1]) }, false)
	mkGeneric("G2", []string{"number"}, func(tps []*types.TypeParam) types.Type { return types.NewSlice(tps[0]) }, false)
	// aliases
	alias := func(name string, rhs types.Type, cmp bool) {
		w.Aliases[name] = types.NewAlias(types.NewTypeName(0, pkg, name, nil), rhs)
		env.Aliases = append(env.Aliases, gen.NamedInfo{Name: name, Comparable: cmp})
	}
	alias("A0", intT, true)
	alias("A1", types.NewSlice(types.Typ[types.String]), false)
	alias("A2", n1, true)
	// free type parameters
	w.TParams["T0"] = types.NewTypeParam(types.NewTypeName(0, pkg, "T0", nil), types.Universe.Lookup("any").Type())
	w.TParams["T1"] = types.NewTypeParam(types.NewTypeName(0, pkg, "T1", nil), types.Universe.Lookup("comparable").Type())
	env.TParams = []gen.NamedInfo{{Name: "T0"}, {Name: "T1", Comparable: true}}
	return w, env
}

// twin returns a description that is *not* identical to d but collides with it under an
// order-insensitive hash (two field types swapped / two parameter types swapped), or nil.
func c19Twin(d *gen.Desc, rot int) *gen.Desc {
	switch d.K {
	case gen.KStruct:
		if rot == 1 && len(d.Fields) >= 3 && !d.Fields[1].Embedded && !d.Fields[2].Embedded && d.Fields[1].T.String() != d.Fields[2].T.String() {
			c := *d
			c.Fields = append([]gen.Field(nil), d.Fields...)
			c.Fields[1].T, c.Fields[2].T = d.Fields[2].T, d.Fields[1].T
			return &c
		}
		if rot == 0 && len(d.Fields) >= 2 && d.Fields[0].T.String() != d.Fields[1].T.String() && !d.Fields[0].Embedded && !d.Fields[1].Embedded {
			c := *d
			c.Fields = append([]gen.Field(nil), d.Fields...)
			c.Fields[0].T, c.Fields[1].T = d.Fields[1].T, d.Fields[0].T
			return &c
		}
	case gen.KFunc:
		if rot == 1 && len(d.Params) >= 3 && !d.Variadic && d.Params[1].String() != d.Params[2].String() {
			c := *d
			c.Params = append([]*gen.Desc(nil), d.Params...)
			c.Params[1], c.Params[2] = d.Params[2], d.Params[1]
			return &c
		}
		if rot == 0 && len(d.Params) >= 2 && !d.Variadic && d.Params[0].String() != d.Params[1].String() {
			c := *d
			c.Params = append([]*gen.Desc(nil), d.Params...)
			c.Params[0], c.Params[1] = d.Params[1], d.Params[0]
			return &c
		}
	}
	return nil
}

var c19Fixed = []*gen.Desc{
	{K: gen.KArray, Len: 3, Elem: &gen.Desc{K: gen.KBasic, Basic: "int"}}, // hashes like []int8
	{K: gen.KSlice, Elem: &gen.Desc{K: gen.KBasic, Basic: "int8"}},
	{K: gen.KInst, Name: "G0", Args: []*gen.Desc{{K: gen.KBasic, Basic: "int"}}},
	{K: gen.KStruct, Fields: []gen.Field{{Name: "a", T: &gen.Desc{K: gen.KBasic, Basic: "int"}}, {Name: "b", T: &gen.Desc{K: gen.KBasic, Basic: "string"}}, {Name: "c", T: &gen.Desc{K: gen.KBasic, Basic: "bool"}}}},
	{K: gen.KFunc, Params: []*gen.Desc{{K: gen.KBasic, Basic: "int"}, {K: gen.KBasic, Basic: "string"}, {K: gen.KNamed, Name: "N1"}}},
	{K: gen.KIface, Union: []gen.Term{{Tilde: true, T: &gen.Desc{K: gen.KBasic, Basic: "int"}}, {T: &gen.Desc{K: gen.KBasic, Basic: "string"}}}},
}

// c19Pool realises the descriptions into the key pool: for each description a plain build, a
// second plain build, a permuted/flattened/renamed build, an alias of the first, the hash twin,
// and the same description in a foreign world (same names, different objects).
func c19Pool(descs []*gen.Desc) (pool []types.Type, labels []string) {
	w, _ := c19World()
	w2 := *w
	w2.PermuteMethods, w2.FlattenEmbeds, w2.PermuteUnion, w2.RenameTParams = true, true, true, "x"
	w2.Ctxt = types.NewContext()
	w3 := *w
	w3.AbsorbTerms = "N0" // N0 is defined over int: ~int | N0 is identical to ~int
	foreign, _ := c19World()
	add := func(t types.Type, l string) { pool = append(pool, t); labels = append(labels, l) }
	for i, d := range descs {
		base := w.Realize(d)
		add(base, fmt.Sprintf("d%d", i))
		add(w.Realize(d), fmt.Sprintf("d%d'", i))
		add(w2.Realize(d), fmt.Sprintf("d%d~perm", i))
		if ab := w3.Realize(d); strings.Contains(d.String(), "~int") {
			add(ab, fmt.Sprintf("d%d~absorbed", i))
		}
		add(types.NewAlias(types.NewTypeName(0, w.Pkg, fmt.Sprintf("AL%d", i), nil), base), fmt.Sprintf("d%d~alias", i))
		for rot := 0; rot < 2; rot++ {
			if tw := c19Twin(d, rot); tw != nil {
				add(w.Realize(tw), fmt.Sprintf("d%d~twin%d", i, rot))
			}
		}
		add(foreign.Realize(d), fmt.Sprintf("d%d~foreign", i))
	}
	// tuples
	add(types.NewTuple(types.NewVar(0, nil, "a", pool[0]), types.NewVar(0, nil, "b", types.Typ[types.Int])), "tuple")
	add(types.NewTuple(types.NewVar(0, nil, "x", pool[1]), types.NewVar(0, nil, "", types.Typ[types.Int])), "tuple'")
	return
}

type c19Model struct {
	keys []types.Type
	vals []int
}

func (m *c19Model) find(k types.Type) int {
	for i, x := range m.keys {
		if types.Identical(x, k) {
			return i
		}
	}
	return -1
}

// c19Exec applies ops to a fresh map and the model; it returns a description of the first
// disagreement ("" if none) and whether the history was non-trivial.
func c19Exec(pool []types.Type, labels []string, ops []c19Op) (bad string, nontrivial bool, feats []string) {
	m := new(typeutil.Map)
	var nilMap *typeutil.Map
	model := &c19Model{}
	deletedHash := map[uint32]bool{}
	feat := map[string]bool{}
	var h typeutil.Hasher
	defer func() {
		if e := recover(); e != nil {
			bad = fmt.Sprintf("panic: %v", e)
		}
		for f := range feat {
			feats = append(feats, f)
		}
		sort.Strings(feats)
	}()
	checkAll := func(step int) string {
		if m.Len() != len(model.keys) {
			return fmt.Sprintf("step %d: Len()=%d, model has %d", step, m.Len(), len(model.keys))
		}
		for i, k := range pool {
			got := m.At(k)
			j := model.find(k)
			if j < 0 {
				if got != nil {
					return fmt.Sprintf("step %d: At(%s)=%v, model has no identical key", step, labels[i], got)
				}
			} else if got != model.vals[j] {
				return fmt.Sprintf("step %d: At(%s)=%v, model says %d", step, labels[i], got, model.vals[j])
			}
		}
		keys := m.Keys()
		if len(keys) != len(model.keys) {
			return fmt.Sprintf("step %d: Keys() has %d entries, model %d", step, len(keys), len(model.keys))
		}
		used := make([]bool, len(keys))
		for _, mk := range model.keys {
			found := false
			for i, k := range keys {
				if !used[i] && types.Identical(k, mk) {
					used[i], found = true, true
					break
				}
			}
			if !found {
				return fmt.Sprintf("step %d: model key %s missing from Keys()", step, mk)
			}
		}
		n := 0
		msg := ""
		m.Iterate(func(k types.Type, v any) {
			n++
			j := model.find(k)
			if j < 0 || v != model.vals[j] {
				msg = fmt.Sprintf("step %d: Iterate yields (%s,%v) not in model", step, k, v)
			}
		})
		if msg != "" {
			return msg
		}
		if n != len(model.keys) {
			return fmt.Sprintf("step %d: Iterate visited %d entries, model %d", step, n, len(model.keys))
		}
		return ""
	}
	for step, op := range ops {
		if op.Key < 0 || op.Key >= len(pool) {
			continue
		}
		k := pool[op.Key]
		switch op.Op {
		case "set":
			j := model.find(k)
			prev := m.Set(k, op.Val)
			if j >= 0 {
				if model.keys[j] != k {
					feat["set-via-identical-nonpointer-key"] = true
					nontrivial = true
				}
				if prev != model.vals[j] {
					return fmt.Sprintf("step %d: Set(%s) returned prev=%v, model %d", step, labels[op.Key], prev, model.vals[j]), nontrivial, nil
				}
				model.vals[j] = op.Val
			} else {
				if prev != nil {
					return fmt.Sprintf("step %d: Set(%s) returned prev=%v for a new key", step, labels[op.Key], prev), nontrivial, nil
				}
				if deletedHash[h.Hash(k)] {
					feat["set-after-delete-same-bucket"] = true
					nontrivial = true
				}
				model.keys = append(model.keys, k)
				model.vals = append(model.vals, op.Val)
			}
		case "delete":
			j := model.find(k)
			found := m.Delete(k)
			if found != (j >= 0) {
				return fmt.Sprintf("step %d: Delete(%s)=%v, model found=%v", step, labels[op.Key], found, j >= 0), nontrivial, nil
			}
			if j >= 0 {
				if model.keys[j] != k {
					feat["delete-via-identical-nonpointer-key"] = true
					nontrivial = true
				}
				deletedHash[h.Hash(k)] = true
				model.keys = append(model.keys[:j], model.keys[j+1:]...)
				model.vals = append(model.vals[:j], model.vals[j+1:]...)
			}
		case "at":
			j := model.find(k)
			got := m.At(k)
			if j >= 0 && model.keys[j] != k {
				feat["at-via-identical-nonpointer-key"] = true
				nontrivial = true
			}
			if (j < 0 && got != nil) || (j >= 0 && got != model.vals[j]) {
				return fmt.Sprintf("step %d: At(%s)=%v disagrees with model", step, labels[op.Key], got), nontrivial, nil
			}
		case "string":
			s, ks := m.String(), m.KeysString()
			if strings.Count(s, ": ") < len(model.keys) || !strings.HasPrefix(s, "{") || !strings.HasSuffix(ks, "}") {
				return fmt.Sprintf("step %d: String()=%q for %d entries", step, s, len(model.keys)), nontrivial, nil
			}
			for _, mk := range model.keys {
				if !strings.Contains(ks, mk.String()) {
					return fmt.Sprintf("step %d: KeysString()=%q lacks %s", step, ks, mk), nontrivial, nil
				}
			}
		case "iterdel":
			// documented guarantee: an entry deleted before Iterate reaches it is not visited
			if op.Del < 0 || op.Del >= len(pool) {
				continue
			}
			dk := pool[op.Del]
			deleted := false
			var msg string
			m.Iterate(func(key types.Type, v any) {
				if deleted && types.Identical(key, dk) {
					msg = fmt.Sprintf("step %d: Iterate visited %s after it was deleted", step, labels[op.Del])
				}
				if !deleted {
					if types.Identical(key, dk) {
						deleted = true // reached before deletion: nothing to check
						return
					}
					if j := model.find(dk); j >= 0 {
						if !m.Delete(dk) {
							msg = fmt.Sprintf("step %d: Delete during Iterate did not find %s", step, labels[op.Del])
						}
						deletedHash[h.Hash(dk)] = true
						model.keys = append(model.keys[:j], model.keys[j+1:]...)
						model.vals = append(model.vals[:j], model.vals[j+1:]...)
						feat["delete-during-iterate"] = true
					}
					deleted = true
				}
			})
			if msg != "" {
				return msg, nontrivial, nil
			}
		case "nilread":
			if nilMap.At(k) != nil || nilMap.Len() != 0 || len(nilMap.Keys()) != 0 || nilMap.Delete(k) || nilMap.String() != "{}" {
				return fmt.Sprintf("step %d: nil map is not an empty map", step), nontrivial, nil
			}
			nilMap.Iterate(func(types.Type, any) { bad = "nil map iterates" })
		}
		if s := checkAll(step); s != "" {
			return s, nontrivial, nil
		}
	}
	return "", nontrivial, nil
}

// c19HashLaw checks Identical(a,b) => Hash(a)==Hash(b) over all pairs of the pool.
func c19HashLaw(pool []types.Type, labels []string) (bad string, identicalPairs int) {
	var h typeutil.Hasher
	hs := make([]uint32, len(pool))
	for i, t := range pool {
		hs[i] = h.Hash(t)
		if h2 := typeutil.MakeHasher().Hash(t); h2 != hs[i] {
			return fmt.Sprintf("Hash(%s) not stable: %d vs %d", labels[i], hs[i], h2), 0
		}
	}
	for i := range pool {
		for j := i + 1; j < len(pool); j++ {
			if types.Identical(pool[i], pool[j]) {
				if pool[i] != pool[j] {
					identicalPairs++
				}
				if hs[i] != hs[j] {
					return fmt.Sprintf("Identical(%s, %s) but Hash %d != %d\n  %s\n  %s", labels[i], labels[j], hs[i], hs[j], pool[i], pool[j]), identicalPairs
				}
			}
		}
	}
	return "", identicalPairs
}

func c19Run(c *c19Case) (bad string, nontrivial bool, feats []string) {
	defer func() {
		if e := recover(); e != nil {
			bad = fmt.Sprintf("panic: %v", e)
		}
	}()
	pool, labels := c19Pool(c.Descs)
	if s, _ := c19HashLaw(pool, labels); s != "" {
		return s, true, nil
	}
	return c19Exec(pool, labels, c.Ops)
}

func TestC19(t *testing.T) {
	r := hx.Start(t, "C19")
	r.SetRule("rapid state machine: key pool = generated type descriptions (depth<=4) each realised as plain / rebuilt / method- and union-permuted + flattened + tparam-renamed / aliased / hash-twin / foreign-world variants; ops Set/Delete/At/String/Iterate-with-delete/nil-map reads; after every op At(all pool keys), Len, Keys, Iterate are compared with an association list over types.Identical, and Identical=>Hash-equal is checked on all pool pairs. Non-trivial: history accesses an entry through a non-pointer-equal identical key, or Sets a new key into a bucket that had a deletion (tombstone reuse); distinct by (descriptions, ops).")
	r.Assume("types.Identical (go/types) is the specification of type identity", "keys are well-formed types built with the go/types API")
	defer r.Done()
	if r.Replay != "" {
		var c c19Case
		if err := r.ReplayInput(&c); err != nil {
			t.Fatal(err)
		}
		if bad, _, _ := c19Run(&c); bad != "" {
			r.Report(&c, "", "%s", bad)
		}
		r.Eval()
		return
	}
	_, env := c19World()
	opts := gen.TypeGenOpts{MaxDepth: 4, FancyTags: true, NamedParam: true}
	r.Check(t, "map-vs-model", r.N(3000, 200000), func(t *rapid.T) {
		c := &c19Case{}
		n := rapid.IntRange(1, 5).Draw(t, "ndescs")
		for i := 0; i < n; i++ {
			if rapid.IntRange(0, 3).Draw(t, "fixed") == 0 {
				c.Descs = append(c.Descs, pick(t, "fixedDesc", c19Fixed))
			} else {
				c.Descs = append(c.Descs, env.TypeGen(t, opts, rapid.IntRange(0, 4).Draw(t, "depth"), false))
			}
		}
		pool, labels := c19Pool(c.Descs)
		r.Eval()
		if s, pairs := c19HashLaw(pool, labels); s != "" {
			r.Fail(t, c, "hash-law", "%s", s)
		} else {
			r.ClassN("identical-nonpointer-pairs", int64(pairs))
		}
		t.Repeat(map[string]func(*rapid.T){
			"set": func(t *rapid.T) {
				c.Ops = append(c.Ops, c19Op{Op: "set", Key: rapid.IntRange(0, len(pool)-1).Draw(t, "k"), Val: rapid.IntRange(1, 1000).Draw(t, "v")})
			},
			"delete": func(t *rapid.T) {
				c.Ops = append(c.Ops, c19Op{Op: "delete", Key: rapid.IntRange(0, len(pool)-1).Draw(t, "k")})
			},
			"at": func(t *rapid.T) {
				c.Ops = append(c.Ops, c19Op{Op: "at", Key: rapid.IntRange(0, len(pool)-1).Draw(t, "k")})
			},
			"string": func(t *rapid.T) { c.Ops = append(c.Ops, c19Op{Op: "string"}) },
			"iterdel": func(t *rapid.T) {
				c.Ops = append(c.Ops, c19Op{Op: "iterdel", Del: rapid.IntRange(0, len(pool)-1).Draw(t, "del")})
			},
			"nilread": func(t *rapid.T) {
				c.Ops = append(c.Ops, c19Op{Op: "nilread", Key: rapid.IntRange(0, len(pool)-1).Draw(t, "k")})
			},
			"": func(t *rapid.T) {
				// executing the whole prefix again keeps the property a pure function of the op list
				// (the replay file), at quadratic but tiny cost.
				if bad, _, _ := c19Exec(pool, labels, c.Ops); bad != "" {
					r.Fail(t, c, "model", "%s", bad)
				}
			},
		})
		_, nontrivial, feats := c19Exec(pool, labels, c.Ops)
		r.Class(feats...)
		for _, d := range c.Descs {
			for _, k := range d.Kinds() {
				r.Class("kind:" + k)
			}
		}
		canon := fmt.Sprint(c.Descs, c.Ops)
		if nontrivial {
			r.Nontrivial(canon)
		}
		r.Sample(func() any { return map[string]any{"keys": descStrings(c.Descs), "pool": labels, "ops": c.Ops} })
	})
	// client: the builtin-type-method table must answer identically for identical types
	c19Client(t, r)
}

func descStrings(ds []*gen.Desc) []string {
	var out []string
	for _, d := range ds {
		out = append(out, d.String())
	}
	return out
}

func pick[T any](t *rapid.T, label string, xs []T) T {
	return xs[rapid.IntRange(0, len(xs)-1).Draw(t, label)]
}

func c19Client(t *testing.T, r *hx.Run) {
	pkg := gogen.NewPackage("", "main", &gogen.Config{Importer: sharedImporter()})
	str := types.Typ[types.String]
	type pair struct {
		name string
		a, b types.Type
	}
	al := func(rhs types.Type) types.Type {
		return types.NewAlias(types.NewTypeName(0, pkg.Types, "AL", nil), rhs)
	}
	pairs := []pair{
		{"[]string rebuilt", types.NewSlice(str), types.NewSlice(str)},
		{"alias of []string", types.NewSlice(str), al(types.NewSlice(str))},
		{"string vs alias", str, al(str)},
		{"int vs alias", types.Typ[types.Int], al(types.Typ[types.Int])},
		{"float64 vs alias", types.Typ[types.Float64], al(types.Typ[types.Float64])},
		{"untyped string vs string", types.Typ[types.UntypedString], str},
		{"untyped int vs int", types.Typ[types.UntypedInt], types.Typ[types.Int]},
		{"[]int vs []float64 (any slice)", types.NewSlice(types.Typ[types.Int]), types.NewSlice(types.Typ[types.Float64])},
		{"chan int vs <-chan string (any chan)", types.NewChan(types.SendRecv, types.Typ[types.Int]), types.NewChan(types.RecvOnly, str)},
	}
	for _, p := range pairs {
		r.Eval()
		a, b := pkg.BuiltinTI(p.a), pkg.BuiltinTI(p.b)
		if a == nil || a != b {
			r.Report(p.name, "client", "BuiltinTI(%s)=%p but BuiltinTI(%s)=%p (%s)", p.a, a, p.b, b, p.name)
		} else {
			r.Nontrivial("client:" + p.name)
		}
	}
}
