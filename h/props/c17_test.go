package props

import (
	"encoding/json"
	"fmt"
	"go/token"
	"go/types"
	"os"
	"path/filepath"
	"strings"
	"sync/atomic"
	"syscall"
	"testing"
	"time"

	"github.com/goplus/gogen"
	"pgregory.net/rapid"

	"verif/h/drive"
	"verif/h/gen"
	"verif/h/hx"
	"verif/h/oracle"
)

// ---- C17: every operation terminates promptly and never fails with a run-time fault -----------

var c17CaseStart atomic.Int64

// c17Guard limits the address space of this process and starts a watchdog that kills it when one
// case runs for more than limit; vcheck then re-runs the recorded current case in isolation.
func c17Guard(limit time.Duration) {
	var lim syscall.Rlimit
	if syscall.Getrlimit(syscall.RLIMIT_AS, &lim) == nil {
		lim.Cur = 6 << 30
		if lim.Max != 0 && lim.Cur > lim.Max {
			lim.Cur = lim.Max
		}
		syscall.Setrlimit(syscall.RLIMIT_AS, &lim)
	}
	go func() {
		for {
			time.Sleep(time.Second)
			if s := c17CaseStart.Load(); s != 0 && time.Since(time.Unix(0, s)) > limit {
				fmt.Fprintf(os.Stderr, "WATCHDOG: one case is running for more than %v\n", limit)
				os.Exit(3)
			}
		}
	}()
}

func c17Current(r *hx.Run, c *progCase) {
	if dir := os.Getenv("VERIF_WORK"); dir != "" && r.Replay == "" {
		data, _ := json.Marshal(c)
		os.WriteFile(filepath.Join(dir, fmt.Sprintf("current-%d.json", r.Shard)), data, 0o644)
	}
	c17CaseStart.Store(time.Now().UnixNano())
}

func c17Eval(c *progCase) (sig, msg string, pr *progRun) {
	pr = runProgram(c, nil)
	c17CaseStart.Store(0)
	if pr.Failure != "" {
		return "", "", pr
	}
	switch pr.Res.PanicKind {
	case "runtime", "other":
		top := faultSite(pr.Res.Stack)
		return "runtime-fault|" + normMsg(fmt.Sprint(pr.Res.Panic)) + "|" + top,
			fmt.Sprintf("run-time fault inside the builder: %v\n  while translating: %s\n%s", pr.Res.Panic, pr.stmtAt(), firstLines(pr.Res.Stack, 40)), pr
	}
	return "", "", pr
}

// faultSite returns the innermost gogen frame (function name) of a panic stack.
func faultSite(stack string) string {
	lines := strings.Split(stack, "\n")
	seenPanic := false
	for _, l := range lines {
		if strings.HasPrefix(l, "panic(") {
			seenPanic = true
			continue
		}
		if seenPanic && strings.HasPrefix(l, "github.com/goplus/gogen") {
			if i := strings.LastIndex(l, "("); i > 0 {
				l = l[:i]
			}
			return strings.TrimPrefix(l, "github.com/goplus/gogen")
		}
	}
	return "?"
}

func TestC17(t *testing.T) {
	r := hx.Start(t, "C17")
	r.SetRule("G-hostile under three configurations (default, XGo-builtin, bare = no node interpreter): (a) a deterministic grid of ~150 operation templates x 56 operand kinds (types, no-value and multi-value calls, nil, >64-bit and 1e400 constants, builtins, generic functions, blank ...), sharded, thorough tier enumerates it completely; (b) random template instantiations, extreme constant expression trees (shift counts up to 1<<63, negative and fractional counts, 10^4-digit literals, typed boundary constants) in expression and declaration contexts; (c) nesting 50..3000 deep of parentheses, unary/binary chains, blocks, closures, if/else, call chains, pointer/slice types, constant chains; (d) type-breaking mutants of G-valid programs; (e) the extension constructs of C11 driven through the builder API without a Recorder. Oracle: a recovered panic whose value is a runtime.Error (or not an error/string at all) is a violation; a worker that dies (fatal error, address-space limit 6 GiB) or runs one case > 180 s is re-run alone and is a violation only if it dies again; nesting families must not need more than x160 the CPU time for x4 the size (best of three measurements; a cubic algorithm needs x64). Non-trivial: the builder rejected the case or the case is from (b)/(c); distinct by source.")
	r.Assume("reported errors of any kind (HandleErr, error/string panics incl. log.Panicln TODOs) are acceptable outcomes", "time limits are only used to detect hangs, confirmed in isolation")
	defer r.Done()
	c17Guard(180 * time.Second)
	eval := func(c *progCase) (string, string) {
		c17CaseStart.Store(time.Now().UnixNano())
		sig, msg, _ := c17Eval(c)
		return sig, msg
	}
	if r.Replay != "" {
		var ac c11Case
		if err := r.ReplayInput(&ac); err == nil && ac.Feat != "" {
			// an API construct (part e)
			r.Eval()
			if sig, msg, _, status := c11Eval(&ac); status == "panic" {
				r.Report(&ac, "runtime-fault|api|"+sig, "%s", msg)
			}
			return
		}
		var c progCase
		if err := r.ReplayInput(&c); err != nil {
			t.Fatal(err)
		}
		r.Eval()
		if sig, msg := eval(&c); sig != "" {
			r.Report(&c, sig, "%s", msg)
		}
		return
	}
	if r.Shard == 0 {
		replayFindings(r, eval)
	}
	cfgs := []string{"default", "xgo", "bare"}
	setCfg := func(c *progCase, k int) {
		c.XGo, c.Bare = k == 1, k == 2
	}
	// (a) grid
	_, size := gen.HostileGrid(-1)
	step := 1
	if r.Quick() {
		step = 11
	}
	gridFaults := map[string]bool{}
	for k := r.Shard * step; k < size; k += r.NShards * step {
		idx := k
		if r.Quick() {
			idx = (k + int(r.Seed%11)) % size
		}
		src, _ := gen.HostileGrid(idx)
		for ci := range cfgs {
			if r.Quick() && ci != (idx+int(r.Seed))%3 {
				continue
			}
			c := &progCase{Files: []string{src}, Note: fmt.Sprintf("grid %d %s", idx, cfgs[ci])}
			setCfg(c, ci)
			c17Current(r, c)
			sig, msg, pr := c17Eval(c)
			r.Eval()
			r.Class("grid:" + cfgs[ci])
			if pr.Res != nil && pr.Res.Rejected() {
				r.Class("grid-rejected")
				r.Nontrivial(src + cfgs[ci])
			}
			if sig != "" {
				if f := r.MatchKnown(sig); f != nil {
					r.Known(f)
				} else if !gridFaults[sig] {
					gridFaults[sig] = true
					r.Report(c, sig, "%s", msg)
				}
			}
		}
	}
	if !r.Quick() {
		r.Extra("grid_cells_enumerated_completely", size)
	}
	r.Extra("grid_size", size)
	// (b)(c) random hostile programs
	r.Check(t, "hostile-random", r.N(4000, 150000), func(t *rapid.T) {
		src, family := gen.HostileRandom(t)
		ci := rapid.IntRange(0, 2).Draw(t, "cfg")
		c := &progCase{Files: []string{src}, Note: family}
		setCfg(c, ci)
		c17Current(r, c)
		sig, msg, pr := c17Eval(c)
		r.Eval()
		r.Class("family:"+strings.SplitN(family, ":", 2)[0], "cfg:"+cfgs[ci])
		if sig != "" {
			if f := r.MatchKnown(sig); f != nil {
				r.Known(f)
				return
			}
			r.Fail(t, c, sig, "%s", msg)
		}
		if pr.Res != nil && pr.Res.Rejected() {
			r.Class("rejected")
		}
		r.Nontrivial(src + cfgs[ci])
		r.Sample(func() any {
			s := src[strings.Index(src, "func sum"):]
			if len(s) > 600 {
				s = s[:600] + "..."
			}
			return map[string]any{"family": family, "cfg": cfgs[ci], "tail_of_source": s}
		})
	})
	// (d) mutants of valid programs
	avoid := knownAvoid("C17")
	r.Check(t, "hostile-mutants", r.N(1500, 40000), func(t *rapid.T) {
		p := gen.GenProgram(t, gen.ProgOpts{Avoid: avoid, TypedConsts: true})
		src := p.Src
		for i := 0; i < rapid.IntRange(1, 3).Draw(t, "nmut"); i++ {
			if m := gen.Mutate(t, src); m.Src != "" {
				src = m.Src
			}
		}
		ci := rapid.IntRange(0, 2).Draw(t, "cfg")
		c := &progCase{Files: []string{src}, Note: "mutant"}
		setCfg(c, ci)
		c17Current(r, c)
		sig, msg, pr := c17Eval(c)
		r.Eval()
		r.Class("family:mutant", "cfg:"+cfgs[ci])
		if sig != "" {
			if f := r.MatchKnown(sig); f != nil {
				r.Known(f)
				return
			}
			r.Fail(t, c, sig, "%s", msg)
		}
		if pr.Res != nil && pr.Res.Rejected() {
			r.Class("rejected")
			r.Nontrivial(src + cfgs[ci])
		}
	})
	// (e) the extension constructs of C11 (builtin-type methods, any/map members, casts, optional
	// parameters, aliases, enumerators, inline closures, tuples, big literals), driven through the
	// builder API without a Recorder: whatever else they do, they must not fault.
	r.Check(t, "api-constructs", r.N(600, 20000), func(t *rapid.T) {
		feat := c11Feats[rapid.IntRange(0, len(c11Feats)-1).Draw(t, "feature")]
		ch := &chooser{t: t}
		plan := c11MakePlan(feat, ch)
		if plan == nil {
			return
		}
		c := &c11Case{Feat: feat, A: ch.rec, Note: plan.desc}
		sig, msg, _, status := c11Run(plan)
		r.Eval()
		r.Class("api-construct:" + feat)
		if status == "panic" {
			sig = "runtime-fault|api|" + sig
			if f := r.MatchKnown(sig); f != nil {
				r.Known(f)
				return
			}
			r.Fail(t, c, sig, "%s", msg)
		}
		r.Nontrivial("api:" + plan.key)
	})
	// Scaling families. Time is a verdict only in this form: the CPU time of this process (not the
	// wall clock, which the other shards and anything else on the machine distort), the best of up to
	// three measurements, and a bound (x160 per x4 size) that a cubic algorithm (x64; the printer is
	// cubic in the nesting depth of function literals) stays well below while a quartic or exponential
	// one does not.
	if r.Shard == 0 {
		cpu := func() time.Duration {
			var ru syscall.Rusage
			if syscall.Getrusage(syscall.RUSAGE_SELF, &ru) != nil {
				return 0
			}
			return time.Duration(ru.Utime.Nano() + ru.Stime.Nano())
		}
		for kind := 0; kind < 11; kind++ {
			sizes := []int{400, 1600}
			if kind == 10 {
				sizes = []int{13, 26} // layers of a diamond embedding: a search by path instead of by type is 2^n
			}
			measure := func(report bool) (ts [2]time.Duration) {
				for i, n := range sizes {
					if kind == 10 {
						// built through the API: go/types' own validity check of the declarations (validType,
						// go1.23) is exponential on this shape, so the source cannot go through the oracle
						c17Current(r, &progCase{Files: []string{gen.HostileNest(kind, n)}, Note: fmt.Sprintf("scaling kind=%d n=%d (built through the API)", kind, n)})
						t0 := cpu()
						fault := c17Diamond(n)
						ts[i] = cpu() - t0
						r.Eval()
						if report && fault != "" {
							r.Report(&progCase{Files: []string{gen.HostileNest(kind, n)}, Note: "diamond embedding, built through the API"}, "diamond-fault", "%s", fault)
						}
						continue
					}
					c := &progCase{Files: []string{gen.HostileNest(kind, n)}, Note: fmt.Sprintf("scaling kind=%d n=%d", kind, n)}
					c17Current(r, c)
					t0 := cpu()
					sig, msg, _ := c17Eval(c)
					ts[i] = cpu() - t0
					r.Eval()
					if report && sig != "" && r.MatchKnown(sig) == nil {
						r.Report(c, sig, "%s", msg)
					}
				}
				return ts
			}
			slow := func(ts [2]time.Duration) bool { return ts[1] > 3*time.Second && ts[1] > 160*ts[0] }
			ts := measure(true)
			for attempt := 0; attempt < 2 && slow(ts); attempt++ {
				ts = measure(false) // confirm: a verdict needs three slow measurements in a row
			}
			r.Class("scaling-family")
			if slow(ts) {
				c := &progCase{Files: []string{gen.HostileNest(kind, sizes[1])}, Note: fmt.Sprintf("scaling kind=%d", kind)}
				r.Report(c, "superlinear", "nesting family %d: n=%d took %v CPU, n=%d took %v CPU in three measurements (more than x160)", kind, sizes[0], ts[0], sizes[1], ts[1])
			}
			r.Extra(fmt.Sprintf("scaling_kind%d_cpu_ms_400_1600", kind), fmt.Sprintf("%d/%d", ts[0].Milliseconds(), ts[1].Milliseconds()))
		}
	}
}

// c17Diamond declares the layered diamond embedding of gen.HostileNest(10, n) through the API and
// looks up a member that is declared nowhere; it returns a description of a run-time fault, if any.
func c17Diamond(n int) (fault string) {
	pkg := gogen.NewPackage("", "main", &gogen.Config{Importer: oracle.Importer()})
	intT := types.Typ[types.Int]
	emb := func(ts ...types.Type) *types.Struct {
		var fs []*types.Var
		for _, t := range ts {
			fs = append(fs, types.NewField(token.NoPos, pkg.Types, t.(*types.Named).Obj().Name(), t, true))
		}
		return types.NewStruct(fs, nil)
	}
	prev := types.Type(pkg.NewType("T0").InitType(pkg, types.NewStruct([]*types.Var{types.NewField(token.NoPos, pkg.Types, "a0", intT, false)}, nil)))
	for i := 1; i <= n; i++ {
		u := pkg.NewType(fmt.Sprintf("U%d", i)).InitType(pkg, emb(prev))
		v := pkg.NewType(fmt.Sprintf("V%d", i)).InitType(pkg, emb(prev))
		prev = pkg.NewType(fmt.Sprintf("T%d", i)).InitType(pkg, emb(u, v))
	}
	defer func() {
		if e := recover(); e != nil {
			if k := drive.ClassifyPanic(e); k == "runtime" || k == "other" {
				fault = fmt.Sprintf("run-time fault in the member lookup: %v", e)
			}
		}
	}()
	cb := pkg.NewFunc(nil, "f", nil, nil, false).BodyStart(pkg)
	cb.NewVar(prev, "vt")
	cb.VarVal("vt").MemberVal("nosuch", 0)
	return ""
}
