package props

import (
	"bytes"
	"fmt"
	"go/ast"
	"go/parser"
	"go/token"
	"go/types"
	"runtime/debug"
	"strings"
	"testing"

	"github.com/goplus/gogen"
	"pgregory.net/rapid"

	"verif/h/drive"
	"verif/h/gen"
	"verif/h/hx"
	"verif/h/oracle"
)

// ---- C13: type expressions round-trip; C14: synthesised zero values ----------------------------

const typePrelude = `package main

import (
	"bytes"
	"fmt"
	"time"
)

type N0 int
type N1 struct{ a int }
type N2 []int
type I0 interface{ M() }
type P0 *int
type G0[T any] struct{ x *T }
type G1[K comparable, V any] map[K]V
type G2[T ~int | ~float64] []T
type (
	A0 = int
	A1 = []string
	A2 = N1
)

var (
	_ time.Duration
	_ fmt.Stringer
	_ bytes.Buffer
)
`

func typeEnv() *gen.Env {
	return &gen.Env{
		Named: []gen.NamedInfo{
			{Name: "N0", Comparable: true, Kind: "basic"}, {Name: "N1", Comparable: true, Kind: "struct"}, {Name: "N2", Kind: "slice"},
			{Name: "I0", Comparable: true, IsIface: true, Kind: "iface"}, {Name: "P0", Comparable: true, Kind: "ptr"},
			{Name: "G0", NTParams: 1, TPCons: []string{"any"}, Comparable: true, Kind: "generic"},
			{Name: "G1", NTParams: 2, TPCons: []string{"comparable", "any"}, Kind: "generic"},
			{Name: "G2", NTParams: 1, TPCons: []string{"number"}, Kind: "generic"},
			{Name: "time.Duration", Comparable: true, Kind: "basic"}, {Name: "time.Time", Comparable: true, Kind: "struct"},
			{Name: "fmt.Stringer", Comparable: true, IsIface: true, Kind: "iface"}, {Name: "bytes.Buffer", Kind: "struct"},
		},
		Aliases: []gen.NamedInfo{{Name: "A0", Comparable: true}, {Name: "A1"}, {Name: "A2", Comparable: true}},
		TParams: []gen.NamedInfo{{Name: "T0"}, {Name: "T1", Comparable: true}},
	}
}

// typeWorld binds the names of typeEnv to the objects of a builder package that has the prelude.
func typeWorld(d *drive.Driver) *gen.World {
	pkg := d.Pkg
	w := &gen.World{Pkg: pkg.Types, Named: map[string]types.Type{}, Aliases: map[string]types.Type{}, TParams: map[string]*types.TypeParam{}}
	scope := pkg.Types.Scope()
	for _, n := range []string{"N0", "N1", "N2", "I0", "P0", "G0", "G1", "G2"} {
		w.Named[n] = scope.Lookup(n).Type()
	}
	for _, n := range []string{"A0", "A1", "A2"} {
		// the builder keeps alias declarations as type names whose type is the aliased type; an
		// explicit *types.Alias node is what go/types (go1.23) hands to clients
		obj := scope.Lookup(n).(*types.TypeName)
		if _, ok := obj.Type().(*types.Alias); ok {
			w.Aliases[n] = obj.Type()
		} else {
			w.Aliases[n] = types.NewAlias(types.NewTypeName(token.NoPos, pkg.Types, n, nil), obj.Type())
		}
	}
	for _, pn := range [][2]string{{"time", "Duration"}, {"time", "Time"}, {"fmt", "Stringer"}, {"bytes", "Buffer"}} {
		w.Named[pn[0]+"."+pn[1]] = pkg.Import(pn[0]).Ref(pn[1]).Type()
	}
	anyT := types.Universe.Lookup("any").Type()
	w.TParams["T0"] = types.NewTypeParam(types.NewTypeName(token.NoPos, pkg.Types, "T0", nil), anyT)
	w.TParams["T1"] = types.NewTypeParam(types.NewTypeName(token.NoPos, pkg.Types, "T1", nil), types.Universe.Lookup("comparable").Type())
	return w
}

func descHasTParam(d *gen.Desc) bool {
	for _, k := range d.Kinds() {
		if k == "tparam" {
			return true
		}
	}
	return false
}

type typeCase struct {
	Desc *gen.Desc `json:"desc"`
	Lazy *c14Lazy  `json:"lazy,omitempty"` // C14: a delay-loaded named type (Config.LoadNamed) instead of a description
}

// c14Lazy: a named type that is declared (NewType) but not initialised when its zero value is
// synthesised; the package's LoadNamed callback initialises it on demand.
type c14Lazy struct {
	Under string `json:"under"` // underlying type, Go syntax
	Alias bool   `json:"alias"` // the zero value is asked for through an alias of the type
	Form  string `json:"form"`  // returnerr | zerolit | zero
}

// runWithType builds the prelude and calls declare(d, T) before the package is written.
func runWithType(desc *gen.Desc, declare func(d *drive.Driver, T types.Type)) (*drive.Result, types.Type, *oracle.Checked) {
	fset := token.NewFileSet()
	f, err := parser.ParseFile(fset, "p.go", typePrelude, parser.SkipObjectResolution)
	if err != nil {
		panic(err)
	}
	var T types.Type
	res := drive.Build(fset, []*ast.File{f}, map[string][]byte{"p.go": []byte(typePrelude)}, drive.Options{
		Importer: oracle.Importer(), PkgPath: "main",
		Finish: func(d *drive.Driver) {
			T = typeWorld(d).Realize(desc)
			declare(d, T)
		},
	})
	var out *oracle.Checked
	if res.Accepted() {
		out = oracle.CheckSources("main", map[string]string{"out.go": res.Output[""]}, oracle.Importer())
	}
	return res, T, out
}

func c13Eval(c *typeCase) (sig, msg string, unsound bool) {
	generic := descHasTParam(c.Desc)
	genericWant := ""
	res, T, out := runWithType(c.Desc, func(d *drive.Driver, T types.Type) {
		pkg := d.Pkg
		if generic {
			w := typeWorld(d) // fresh type parameters for the signature (a TypeParam belongs to one declaration)
			T2 := w.Realize(c.Desc)
			tps := []*types.TypeParam{w.TParams["T0"], w.TParams["T1"]}
			sig := types.NewSignatureType(nil, nil, tps, types.NewTuple(types.NewParam(0, pkg.Types, "p", T2)), nil, false)
			fn, err := pkg.NewFuncWith(token.NoPos, "GF", sig, nil)
			if err != nil {
				panic(err)
			}
			fn.BodyStart(pkg).End()
			genericWant = oracle.TypeKey(T2) // the type parameters are bound to GF's signature now
			return
		}
		pkg.NewVarDefs(pkg.Types.Scope()).New(token.NoPos, T, "V")
		pkg.NewTypeDefs().AliasType("AT", T)
		sig := types.NewSignatureType(nil, nil, nil, types.NewTuple(types.NewParam(0, pkg.Types, "p", T), types.NewParam(0, pkg.Types, "q", types.NewSlice(T))), types.NewTuple(types.NewParam(0, pkg.Types, "", T)), true)
		fn, err := pkg.NewFuncWith(token.NoPos, "F0", sig, nil)
		if err != nil {
			panic(err)
		}
		fn.BodyStart(pkg).Val(sig.Params().At(0)).Return(1).End()
	})
	if !res.Accepted() {
		return "builder-error|" + normMsg(res.ErrText()), "declaring a variable of the type failed: " + res.ErrText() + "\n" + firstLines(res.Stack, 25), false
	}
	want := oracle.TypeKey(T)
	if generic {
		want = genericWant
	}
	if !out.OK() {
		// is the type itself invalid Go (generator unsound)? ask go/types about the reference rendering
		ref := types.TypeString(T, types.RelativeTo(res.Pkg.Types))
		probe := typePrelude + "\nfunc _[T0 any, T1 comparable]() {\n\tvar _ " + ref + "\n}\n"
		if pc := oracle.CheckSources("main", map[string]string{"probe.go": probe}, oracle.Importer()); !pc.OK() {
			return "", "", true
		}
		return "output-rejected|" + normMsg(out.ErrText(1)), fmt.Sprintf("the emitted type expression is rejected by go/types: %s\n  type: %s\n%s", out.ErrText(2), T, declLines(res.Output[""], "V", "AT", "F0", "GF")), false
	}
	scope := out.Pkg.Scope()
	check := func(what string, got types.Type) (string, string) {
		if g := oracle.TypeKey(got); g != want {
			return "type-changed|" + what, fmt.Sprintf("%s: the emitted type expression denotes a different type\n  original: %s\n  emitted:  %s\n%s", what, want, g, declLines(res.Output[""], "V", "AT", "F0", "GF"))
		}
		return "", ""
	}
	if generic {
		gf, _ := scope.Lookup("GF").(*types.Func)
		if gf == nil {
			return "missing|GF", "GF not found in the output", false
		}
		s, m := check("generic-func-param", gf.Type().(*types.Signature).Params().At(0).Type())
		return s, m, false
	}
	for _, q := range []struct {
		what string
		t    func() types.Type
	}{
		{"var", func() types.Type { return scope.Lookup("V").Type() }},
		{"alias", func() types.Type { return scope.Lookup("AT").Type() }},
		{"param", func() types.Type { return scope.Lookup("F0").Type().(*types.Signature).Params().At(0).Type() }},
		{"variadic-param", func() types.Type {
			return scope.Lookup("F0").Type().(*types.Signature).Params().At(1).Type().(*types.Slice).Elem()
		}},
		{"result", func() types.Type { return scope.Lookup("F0").Type().(*types.Signature).Results().At(0).Type() }},
	} {
		if s, m := check(q.what, q.t()); s != "" {
			return s, m, false
		}
	}
	if !scope.Lookup("F0").Type().(*types.Signature).Variadic() {
		return "type-changed|variadic-lost", "F0 lost its variadic-ness", false
	}
	return "", "", false
}

func declLines(out string, names ...string) string {
	var b strings.Builder
	for _, l := range strings.Split(out, "\n") {
		for _, n := range names {
			if strings.HasPrefix(l, "var "+n+" ") || strings.HasPrefix(l, "type "+n+" ") || strings.HasPrefix(l, "type "+n+"[") || strings.HasPrefix(l, "func "+n+"(") || strings.HasPrefix(l, "func "+n+"[") || strings.HasPrefix(l, "var Z ") {
				b.WriteString("    " + l + "\n")
			}
		}
	}
	return b.String()
}

func TestC13(t *testing.T) {
	r := hx.Start(t, "C13")
	r.SetRule("types drawn from a recursive generator to depth 5 over every basic kind, unsafe.Pointer, local named/alias/generic types, imported named types (time.Duration, time.Time, fmt.Stringer, bytes.Buffer), pointers, slices, arrays (incl. 1<<20 elements), maps, channels of every direction (nested), functions (named/unnamed/variadic params, multiple results), structs (embedded by value and pointer, tags with spaces, quotes, back-quotes, newlines), interfaces (methods, embedded interfaces, error), instantiations, type parameters; declared through the builder as a variable type, an alias, parameter / variadic parameter / result types (or as the parameter of a generic function when type parameters occur); the emitted package is type-checked and the canonical form of each declared type must equal the canonical form of the original. A type whose reference rendering (types.TypeString) go/types rejects is discarded as generator-unsound. Non-trivial: depth >= 2; distinct by description.")
	r.Assume("go/types is the oracle of type identity; canonical form = h/oracle.TypeKey (struct tags, embedding, directions, variadic-ness, type arguments, union terms, package qualification)")
	defer r.Done()
	eval := func(c *typeCase) (string, string) {
		sig, msg, _ := c13Eval(c)
		return sig, msg
	}
	if r.Replay != "" {
		var cc c13Cons
		if err := r.ReplayInput(&cc); err == nil && cc.Cons {
			r.Eval()
			if sig, msg, _ := c13ConsEval(&cc); sig != "" {
				r.Report(&cc, sig, "%s", msg)
			}
			return
		}
		var c typeCase
		if err := r.ReplayInput(&c); err != nil {
			t.Fatal(err)
		}
		r.Eval()
		if sig, msg := eval(&c); sig != "" {
			r.Report(&c, sig, "%s", msg)
		}
		return
	}
	if r.Shard == 0 {
		typeReplayFindings(r, eval)
	}
	r.Check(t, "constraints", r.N(1500, 60000), func(t *rapid.T) {
		c := &c13Cons{Cons: true}
		n := rapid.IntRange(1, 4).Draw(t, "nterms")
		seen := map[string]bool{}
		for i := 0; i < n; i++ {
			ty := pick(t, "term", c13TermTypes)
			if seen[ty] {
				continue
			}
			seen[ty] = true
			c.Terms = append(c.Terms, c13Term{Tilde: rapid.Bool().Draw(t, "tilde"), T: ty})
		}
		c.Comparable = rapid.IntRange(0, 4).Draw(t, "comparable") == 0
		c.Method = rapid.IntRange(0, 3).Draw(t, "method") == 0
		c.Embed = rapid.IntRange(0, 5).Draw(t, "embed") == 0
		sig, msg, unsound := c13ConsEval(c)
		r.Eval()
		if unsound {
			r.Class("constraint:generator_unsound")
			return
		}
		if sig != "" {
			if f := r.MatchKnown(sig); f != nil {
				r.Known(f)
				return
			}
			r.Fail(t, c, sig, "%s", msg)
		}
		r.Class(fmt.Sprintf("constraint:terms=%d", len(c.Terms)))
		for i, tm := range c.Terms {
			if tm.Tilde && i > 0 {
				r.Class("constraint:tilde-on-later-term")
			}
		}
		r.Nontrivial("constraint:" + c.String())
		r.Sample(func() any { return c.String() })
	})
	env := typeEnv()
	opts := gen.TypeGenOpts{MaxDepth: 5, NoGenSig: true, BigArrays: true, FancyTags: true, NamedParam: true}
	r.Check(t, "type-roundtrip", r.N(8000, 400000), func(t *rapid.T) {
		o := opts
		o.NoTParams = rapid.IntRange(0, 2).Draw(t, "notparams") > 0
		d := env.TypeGen(t, o, rapid.IntRange(1, 5).Draw(t, "depth"), false)
		c := &typeCase{Desc: d}
		sig, msg, unsound := c13Eval(c)
		r.Eval()
		if unsound {
			r.Class("generator_unsound")
			return
		}
		if sig != "" {
			if f := r.MatchKnown(sig); f != nil {
				r.Known(f)
				return
			}
			r.Fail(t, c, sig, "%s", msg)
		}
		for _, k := range d.Kinds() {
			r.Class("kind:" + k)
		}
		r.Class(fmt.Sprintf("depth:%d", d.Depth()))
		if d.Depth() >= 2 {
			r.Nontrivial(d.String())
		}
		r.Sample(func() any { return d.String() })
	})
}

// ---- C13, constraint interfaces: unions and approximation terms ------------------------------------

type c13Term struct {
	Tilde bool   `json:"tilde,omitempty"`
	T     string `json:"t"`
}

// c13Cons is an interface with one embedded union (and optionally comparable, a method, and an
// embedded named interface), used as the underlying type of a declared type and as the constraint
// of a type parameter.
type c13Cons struct {
	Cons       bool      `json:"cons"` // marks the replay as a constraint case
	Terms      []c13Term `json:"terms"`
	Comparable bool      `json:"comparable,omitempty"`
	Method     bool      `json:"method,omitempty"`
	Embed      bool      `json:"embed,omitempty"`
}

func (c *c13Cons) String() string {
	var ts []string
	for _, t := range c.Terms {
		if t.Tilde {
			ts = append(ts, "~"+t.T)
		} else {
			ts = append(ts, t.T)
		}
	}
	s := "interface{ " + strings.Join(ts, " | ")
	if c.Comparable {
		s += "; comparable"
	}
	if c.Embed {
		s += "; I0"
	}
	if c.Method {
		s += "; Str() string"
	}
	return s + " }"
}

func c13ConsEval(c *c13Cons) (sig, msg string, unsound bool) {
	// is the constraint valid Go at all (overlapping terms, ~ on a named type, ...)?
	probe := typePrelude + "\ntype CT " + c.String() + "\n\nfunc GC[P " + c.String() + "](p P) {}\n"
	if pc := oracle.CheckSources("main", map[string]string{"probe.go": probe}, oracle.Importer()); !pc.OK() {
		return "", "", true
	}
	var want string
	bare := !c.Comparable && !c.Embed && !c.Method
	fset := token.NewFileSet()
	f, err := parser.ParseFile(fset, "p.go", typePrelude, parser.SkipObjectResolution)
	if err != nil {
		panic(err)
	}
	res := drive.Build(fset, []*ast.File{f}, map[string][]byte{"p.go": []byte(typePrelude)}, drive.Options{
		Importer: oracle.Importer(), PkgPath: "main",
		Finish: func(d *drive.Driver) {
			pkg := d.Pkg
			mk := func() *types.Interface {
				var terms []*types.Term
				for _, t := range c.Terms {
					var tt types.Type
					if pn, name, ok := strings.Cut(t.T, "."); ok && !strings.ContainsAny(pn, " []{*") {
						tt = pkg.Import(pn).Ref(name).Type() // a type of an imported package
					} else {
						tv, err := types.Eval(token.NewFileSet(), pkg.Types, token.NoPos, t.T)
						if err != nil {
							panic(err)
						}
						tt = tv.Type
					}
					terms = append(terms, types.NewTerm(t.Tilde, tt))
				}
				embeds := []types.Type{types.NewUnion(terms)}
				if c.Comparable {
					embeds = append(embeds, types.Universe.Lookup("comparable").Type())
				}
				if c.Embed {
					embeds = append(embeds, pkg.Types.Scope().Lookup("I0").Type())
				}
				var methods []*types.Func
				if c.Method {
					msig := types.NewSignatureType(nil, nil, nil, nil, types.NewTuple(types.NewParam(0, pkg.Types, "", types.Typ[types.String])), false)
					methods = append(methods, types.NewFunc(token.NoPos, pkg.Types, "Str", msig))
				}
				return types.NewInterfaceType(methods, embeds).Complete()
			}
			iface := mk()
			want = oracle.TypeKey(iface)
			pkg.NewType("CT").InitType(pkg, iface)
			tp := types.NewTypeParam(types.NewTypeName(token.NoPos, pkg.Types, "P", nil), mk())
			fsig := types.NewSignatureType(nil, nil, []*types.TypeParam{tp}, types.NewTuple(types.NewParam(0, pkg.Types, "p", tp)), nil, false)
			fn, err := pkg.NewFuncWith(token.NoPos, "GC", fsig, nil)
			if err != nil {
				panic(err)
			}
			fn.BodyStart(pkg).End()
			if bare {
				// the union itself as constraint (an implicit interface): written inline in the type
				// parameter list of a generic type and of a function, `type Box[P *int | string,] ...`
				union := func() types.Type { return mk().EmbeddedType(0) }
				bp := types.NewTypeParam(types.NewTypeName(token.NoPos, pkg.Types, "P", nil), union())
				fld := types.NewField(token.NoPos, pkg.Types, "v", bp, false)
				pkg.NewType("Box").InitType(pkg, types.NewStruct([]*types.Var{fld}, nil), bp)
				up := types.NewTypeParam(types.NewTypeName(token.NoPos, pkg.Types, "P", nil), union())
				usig := types.NewSignatureType(nil, nil, []*types.TypeParam{up}, types.NewTuple(types.NewParam(0, pkg.Types, "p", up)), nil, false)
				ufn, err := pkg.NewFuncWith(token.NoPos, "GU", usig, nil)
				if err != nil {
					panic(err)
				}
				ufn.BodyStart(pkg).End()
			}
		},
	})
	if !res.Accepted() {
		return "constraint-builder-error|" + normMsg(res.ErrText()), "declaring the constraint failed: " + res.ErrText() + "\n" + firstLines(res.Stack, 25), false
	}
	out := oracle.CheckSources("main", map[string]string{"out.go": res.Output[""]}, oracle.Importer())
	if !out.OK() {
		return "constraint-output-rejected|" + normMsg(out.ErrText(1)), fmt.Sprintf("the emitted constraint is rejected by go/types: %s\n  constraint: %s\n%s", out.ErrText(2), c, declLines(res.Output[""], "CT", "GC")), false
	}
	scope := out.Pkg.Scope()
	if got := oracle.TypeKey(scope.Lookup("CT").Type().Underlying()); got != want {
		return "constraint-changed|type-decl", fmt.Sprintf("type CT: the emitted interface denotes a different type set\n  original: %s\n  emitted:  %s\n%s", want, got, declLines(res.Output[""], "CT")), false
	}
	gc := scope.Lookup("GC").Type().(*types.Signature)
	if got := oracle.TypeKey(gc.TypeParams().At(0).Constraint().Underlying()); got != want {
		return "constraint-changed|type-param", fmt.Sprintf("GC's type parameter: the emitted constraint denotes a different type set\n  original: %s\n  emitted:  %s\n%s", want, got, declLines(res.Output[""], "GC")), false
	}
	if bare {
		box, ok := scope.Lookup("Box").Type().(*types.Named)
		if !ok || box.TypeParams().Len() != 1 {
			return "constraint-changed|generic-type-decl-shape", fmt.Sprintf("type Box[P %s]: the emitted declaration is not a generic type with one type parameter\n%s", c, declLines(res.Output[""], "Box")), false
		}
		if got := oracle.TypeKey(box.TypeParams().At(0).Constraint().Underlying()); got != want {
			return "constraint-changed|generic-type-decl", fmt.Sprintf("Box's type parameter: the emitted constraint denotes a different type set\n  original: %s\n  emitted:  %s\n%s", want, got, declLines(res.Output[""], "Box")), false
		}
		gu := scope.Lookup("GU").Type().(*types.Signature)
		if got := oracle.TypeKey(gu.TypeParams().At(0).Constraint().Underlying()); got != want {
			return "constraint-changed|inline-union-type-param", fmt.Sprintf("GU's type parameter: the emitted constraint denotes a different type set\n  original: %s\n  emitted:  %s\n%s", want, got, declLines(res.Output[""], "GU")), false
		}
	}
	return "", "", false
}

var c13TermTypes = []string{"*string", "*N0", "int", "int8", "int64", "uint", "uint8", "float32", "float64", "string", "bool", "complex128", "uintptr", "[]int", "*int", "map[string]int", "chan int", "func()", "struct{ a int }", "N0", "N2", "time.Duration", "[2]string"}

func typeReplayFindings(r *hx.Run, eval func(c *typeCase) (string, string)) {
	for _, f := range r.Findings() {
		var c typeCase
		if f.Replay == "" || r.LoadReplay(f, &c) != nil || c.Desc == nil {
			continue
		}
		r.Eval()
		sig, msg := eval(&c)
		switch {
		case sig == "":
		case f.Status == "known" && f.Match(sig):
			r.KnownLine(f)
		default:
			r.Report(&c, sig, "replay of %s finding %s: %s", f.Status, f.ID, msg)
		}
	}
}

// ---- C14 ---------------------------------------------------------------------------------------

func c14Eval(c *typeCase) (sig, msg string, unsound bool, zeroForm string) {
	var zeroIsNil bool
	var reported types.Type
	res, T, out := runWithType(c.Desc, func(d *drive.Driver, T types.Type) {
		pkg := d.Pkg
		cb := pkg.CB()
		el := pkg.Zero(T)
		reported = el.Type
		if id, ok := el.Val.(*ast.Ident); ok && id.Name == "nil" {
			zeroIsNil = true
		}
		zeroForm = fmt.Sprintf("%T", el.Val)
		if lit, ok := el.Val.(*ast.CompositeLit); ok && len(lit.Elts) > 0 {
			zeroForm = "composite-with-elements"
		}
		// var Z T = zero
		pkg.NewVarDefs(pkg.Types.Scope()).NewAndInit(func(cb *gogen.CodeBuilder) int { cb.ZeroLit(T); return 1 }, token.NoPos, T, "Z")
		// func f() { x := zero; _ = x }
		fn := pkg.NewFunc(nil, "f", nil, nil, false)
		fn.BodyStart(pkg)
		if !zeroIsNil {
			cb.DefineVarStart(token.NoPos, "zx").ZeroLit(T).EndInit(1)
			cb.VarRef(nil).VarVal("zx").Assign(1)
		}
		cb.End()
		// func g() (T, T, error) { return <zero>, <zero>, err }  via ReturnErr
		errT := types.Universe.Lookup("error").Type()
		results := types.NewTuple(types.NewParam(0, pkg.Types, "", T), types.NewParam(0, pkg.Types, "", T), types.NewParam(0, pkg.Types, "", errT))
		params := types.NewTuple(types.NewParam(0, pkg.Types, "e", errT))
		g := pkg.NewFunc(nil, "g", params, results, false)
		g.BodyStart(pkg).Val(params.At(0)).ReturnErr(false).End()
		// func g2(e error) (T, error): the error return is written inside an inline closure call whose
		// own result is a string: ReturnErr(true) leaves the enclosing function, padded with its zeros
		{
			results2 := types.NewTuple(types.NewParam(0, pkg.Types, "", T), types.NewParam(0, pkg.Types, "", errT))
			params2 := types.NewTuple(types.NewParam(0, pkg.Types, "e", errT))
			g2 := pkg.NewFunc(nil, "g2", params2, results2, false)
			isig := types.NewSignatureType(nil, nil, nil, nil, types.NewTuple(types.NewParam(0, pkg.Types, "", types.Typ[types.String])), false)
			g2.BodyStart(pkg)
			cb.VarRef(nil)
			cb.CallInlineClosureStart(isig, 0, false)
			cb.If().Val(params2.At(0)).CompareNil(token.NEQ).Then().Val(params2.At(0)).ReturnErr(true).End()
			cb.Val("s").Return(1)
			cb.End()
			cb.Assign(1)
			cb.ZeroLit(T).ZeroLit(errT).Return(2)
			cb.End()
		}
		// func h() { var c T = T() }   zero-argument conversion
		h := pkg.NewFunc(nil, "h", nil, nil, false)
		h.BodyStart(pkg)
		pkg.NewVarDefs(cb.Scope()).NewAndInit(func(cb *gogen.CodeBuilder) int { cb.Typ(T).Call(0); return 1 }, token.NoPos, T, "c")
		cb.VarRef(nil).VarVal("c").Assign(1)
		cb.End()
		// func k(a int, opt T) {}; func k2() { k(1) }   omitted optional argument
		optP := pkg.NewParam(token.NoPos, "opt", T, true)
		k := pkg.NewFunc(nil, "k", types.NewTuple(types.NewParam(0, pkg.Types, "a", types.Typ[types.Int]), optP), nil, false)
		k.BodyStart(pkg).End()
		k2 := pkg.NewFunc(nil, "k2", nil, nil, false)
		k2.BodyStart(pkg).Val(k.Func).Val(1).Call(1).EndStmt().End()
	})
	if !res.Accepted() {
		return "builder-error|" + normMsg(res.ErrText()), "building with the zero value failed: " + res.ErrText() + "\n" + firstLines(res.Stack, 25), false, zeroForm
	}
	if reported == nil || !types.Identical(reported, T) {
		return "reported-type", fmt.Sprintf("Zero(%s) is reported with type %v", T, reported), false, zeroForm
	}
	if !out.OK() {
		ref := types.TypeString(T, types.RelativeTo(res.Pkg.Types))
		probe := typePrelude + "\nvar _ " + ref + "\n"
		if pc := oracle.CheckSources("main", map[string]string{"probe.go": probe}, oracle.Importer()); !pc.OK() {
			return "", "", true, zeroForm
		}
		m := out.ErrText(1)
		where := "?"
		for _, e := range out.HardErrs() {
			ln := out.Fset.Position(e.Pos).Line
			where = funcAtLine(res.Output[""], ln)
			break
		}
		return "zero-rejected|in=" + where + "|" + oracle.MsgClass(m), fmt.Sprintf("the zero value emitted for %s is rejected by go/types (in %s): %s\n%s", T, where, out.ErrText(2), tailLines(res.Output[""], 6)), false, zeroForm
	}
	if !zeroIsNil {
		// x := zero must give x the requested type
		var xt types.Type
		for id, obj := range out.Info.Defs {
			if id.Name == "zx" && obj != nil {
				xt = obj.Type()
			}
		}
		if xt == nil {
			return "missing|zx", "zx not found", false, zeroForm
		}
		if oracle.TypeKey(xt) != oracle.TypeKey(T) {
			return fmt.Sprintf("zero-type|x:=zero|T-class=%s|got=%s", typeClass(T), oracle.TypeKey(xt)), fmt.Sprintf("`x := <zero of %s>` gives x the type %s\n%s", T, xt, tailLines(res.Output[""], 6)), false, zeroForm
		}
	}
	return "", "", false, zeroForm
}

func funcAtLine(out string, line int) string {
	lines := strings.Split(out, "\n")
	for i := line - 1; i >= 0 && i < len(lines); i-- {
		if strings.HasPrefix(lines[i], "func ") {
			name := strings.TrimPrefix(lines[i], "func ")
			if j := strings.IndexAny(name, "(["); j > 0 {
				return name[:j]
			}
		}
		if strings.HasPrefix(lines[i], "var Z") {
			return "var-Z"
		}
	}
	return "?"
}

func tailLines(s string, n int) string {
	lines := strings.Split(strings.TrimRight(s, "\n"), "\n")
	if len(lines) > n {
		lines = lines[len(lines)-n:]
	}
	return "    " + strings.Join(lines, "\n    ")
}

func TestC14(t *testing.T) {
	r := hx.Start(t, "C14")
	r.SetRule("value types from the C13 generator (no type parameters): Package.Zero(T) must be reported with a type identical to T; `var Z T = zero`, `x := zero` (when the zero is not nil), error-return padding `return zero, zero, err` (ReturnErr, also from inside an inline closure call with ReturnErr(true)), the zero-argument conversion T() and an omitted optional argument of type T are emitted and type-checked: go/types must accept them and x must have a type identical to T; the zero expression must be a literal, nil or an element-less composite literal. Non-trivial: T is not an unnamed basic type; distinct by description.")
	r.Assume("go/types is the oracle")
	defer r.Done()
	eval := func(c *typeCase) (string, string) {
		if c.Lazy != nil {
			return c14LazyEval(c.Lazy)
		}
		sig, msg, _, _ := c14Eval(c)
		return sig, msg
	}
	if r.Replay != "" {
		var c typeCase
		if err := r.ReplayInput(&c); err != nil {
			t.Fatal(err)
		}
		r.Eval()
		if sig, msg := eval(&c); sig != "" {
			r.Report(&c, sig, "%s", msg)
		}
		return
	}
	if r.Shard == 0 {
		typeReplayFindings(r, eval)
	}
	if r.Shard == 0 {
		// delay-loaded named types: a small closed grid, enumerated completely
		for _, under := range c14LazyUnders {
			for _, alias := range []bool{false, true} {
				for _, form := range []string{"returnerr", "zerolit", "zero"} {
					c := &typeCase{Lazy: &c14Lazy{Under: under, Alias: alias, Form: form}}
					sig, msg := c14LazyEval(c.Lazy)
					r.Eval()
					r.Class("delay-loaded-named-type")
					r.Nontrivial(fmt.Sprintf("lazy|%s|%v|%s", under, alias, form))
					if sig != "" {
						if f := r.MatchKnown(sig); f != nil {
							r.Known(f)
							continue
						}
						r.Report(c, sig, "%s", msg)
					}
				}
			}
		}
	}
	env := typeEnv()
	opts := gen.TypeGenOpts{MaxDepth: 4, NoGenSig: true, NoTParams: true, FancyTags: true, NamedParam: true}
	r.Check(t, "zero-values", r.N(6000, 300000), func(t *rapid.T) {
		d := env.TypeGen(t, opts, rapid.IntRange(0, 4).Draw(t, "depth"), false)
		c := &typeCase{Desc: d}
		sig, msg, unsound, form := c14Eval(c)
		r.Eval()
		if unsound {
			r.Class("generator_unsound")
			return
		}
		if sig != "" {
			if f := r.MatchKnown(sig); f != nil {
				r.Known(f)
				return
			}
			r.Fail(t, c, sig, "%s", msg)
		}
		r.Class("zero-form:" + form)
		r.Class("top-kind:" + string(d.K))
		if d.K != gen.KBasic {
			r.Nontrivial(d.String())
		}
		r.Sample(func() any { return map[string]string{"type": d.String(), "zero_form": form} })
	})
}

var c14LazyUnders = []string{"int", "uint8", "float64", "complex128", "string", "bool", "*string", "[]int", "map[string]int", "chan int", "func()", "interface{ M() }", "[2]int", "struct{ a int }", "error"}

// c14LazyEval declares `type LZ <under>` lazily (NewType now, InitType from the LoadNamed callback),
// asks for the zero value of LZ (or of an alias of it) before the type is loaded, and type-checks
// the written package: the zero must be a value of the type.
func c14LazyEval(lz *c14Lazy) (sig, msg string) {
	shape := fmt.Sprintf("under=%s|alias=%v|form=%s", lz.Under, lz.Alias, lz.Form)
	tv, err := types.Eval(token.NewFileSet(), types.NewPackage("main", "main"), token.NoPos, lz.Under)
	if err != nil {
		panic(err)
	}
	var decl *gogen.TypeDecl
	var pkg *gogen.Package
	load := func(at *gogen.Package) {
		if decl != nil && decl.State() == gogen.TyStateUninited {
			decl.InitType(at, tv.Type)
		}
	}
	var out string
	var perr any
	var stack string
	var reported []error
	var zeroType types.Type
	var want types.Type
	func() {
		defer func() {
			if perr = recover(); perr != nil {
				stack = string(debug.Stack())
			}
		}()
		pkg = gogen.NewPackage("", "main", &gogen.Config{Importer: oracle.Importer(), HandleErr: func(e error) { reported = append(reported, e) },
			LoadNamed: func(at *gogen.Package, typ *types.Named) {
				if decl != nil && typ == decl.Type() {
					load(at)
				}
			}})
		decl = pkg.NewType("LZ")
		want = decl.Type()
		var T types.Type = decl.Type()
		if lz.Alias {
			T = pkg.AliasType("LA", decl.Type())
		}
		switch lz.Form {
		case "returnerr":
			results := types.NewTuple(types.NewParam(token.NoPos, pkg.Types, "", T), types.NewParam(token.NoPos, pkg.Types, "", gogen.TyError))
			cb := pkg.NewFunc(nil, "get", nil, results, false).BodyStart(pkg).NewVar(gogen.TyError, "err")
			_, errObj := cb.Scope().LookupParent("err", token.NoPos)
			cb.Val(errObj).ReturnErr(false).End()
		case "zerolit":
			results := types.NewTuple(types.NewParam(token.NoPos, pkg.Types, "", T))
			pkg.NewFunc(nil, "none", nil, results, false).BodyStart(pkg).ZeroLit(T).Return(1).End()
		default:
			zeroType = pkg.Zero(T).Type
			results := types.NewTuple(types.NewParam(token.NoPos, pkg.Types, "", T))
			pkg.NewFunc(nil, "none", nil, results, false).BodyStart(pkg).ZeroLit(T).Return(1).End()
		}
		load(pkg) // the declaration is reached at the latest here
		var buf bytes.Buffer
		if err := gogen.WriteTo(&buf, pkg); err != nil {
			panic(err)
		}
		out = buf.String()
	}()
	if perr != nil {
		if k := drive.ClassifyPanic(perr); k == "runtime" || k == "other" {
			return "lazy-zero-fault|" + shape, fmt.Sprintf("run-time fault: %v\n%s", perr, firstLines(stack, 20))
		}
		return "lazy-zero-rejected|" + shape + "|" + normMsg(fmt.Sprint(perr)), fmt.Sprintf("the builder rejected the zero value of a delay-loaded type: %v", perr)
	}
	if len(reported) > 0 {
		return "lazy-zero-rejected|" + shape + "|" + normMsg(reported[0].Error()), fmt.Sprintf("the builder reported: %v", reported[0])
	}
	if zeroType != nil && lz.Form == "zero" && !lz.Alias && !types.Identical(zeroType, want) {
		return "lazy-zero-type|" + shape, fmt.Sprintf("Zero(LZ) is reported with type %v", zeroType)
	}
	chk := oracle.CheckSources("main", map[string]string{"out.go": out}, oracle.Importer())
	if !chk.OK() {
		return "lazy-zero-output-rejected|" + shape + "|" + oracle.MsgClass(chk.ErrText(1)), fmt.Sprintf("the zero value of the delay-loaded type LZ (%s) is rejected by go/types: %s\n%s", lz.Under, chk.ErrText(2), tailLines(out, 8))
	}
	return "", ""
}
