package props

import (
	"fmt"
	"sort"
	"strings"
	"testing"

	"github.com/goplus/gogen"
	"pgregory.net/rapid"

	"verif/h/drive"
	"verif/h/gen"
	"verif/h/hx"
	"verif/h/oracle"
)

// ---- C07: generic inference and instantiation agree with the Go type checker -------------------

func c07Eval(c *progCase) (sig, msg, cls string) {
	feats := c.Note
	td, _, pr := c03Eval(c, false)
	if pr.Failure != "" || pr.Res.PanicKind == "unsupported" {
		return "", "", "skipped"
	}
	if pr.Res.PanicKind == "runtime" || pr.Res.PanicKind == "other" {
		return "inference-fault|" + normMsg(fmt.Sprint(pr.Res.Panic)), fmt.Sprintf("run-time fault: %v\n%s", pr.Res.Panic, firstLines(pr.Res.Stack, 25)), "fault"
	}
	goOK, ggOK := pr.Src.OK(), pr.Res.Accepted()
	stmt := c.Files[0][strings.LastIndex(c.Files[0], "func f()"):]
	if goOK != ggOK {
		gomsg := ""
		if !goOK {
			gomsg = oracle.MsgClass(pr.Src.ErrText(1))
		}
		return fmt.Sprintf("generic-verdict|go=%v(%s)|gogen=%v(%s)|feats=%s", goOK, gomsg, ggOK, normMsg(pr.Res.ErrText()), feats),
			fmt.Sprintf("go/types %v (%s), builder %v (%s)\n%s", goOK, pr.Src.ErrText(1), ggOK, pr.Res.ErrText(), stmt), "verdict-differs"
	}
	if !goOK {
		return "", "", "both-reject"
	}
	if td != nil {
		return "generic-" + td.sig(), td.String() + "\n" + stmt, "both-accept"
	}
	if !pr.Out.OK() {
		return "generic-output-ill-typed|" + normMsg(pr.Out.ErrText(1)), "emitted code rejected: " + pr.Out.ErrText(2) + "\n" + stmt, "both-accept"
	}
	want, got := oracle.Dump(pr.Src), oracle.Dump(pr.Out)
	if want != got {
		if oracle.DumpWith(pr.Src, oracle.DumpOpts{FoldBoolConsts: true}) != oracle.DumpWith(pr.Out, oracle.DumpOpts{FoldBoolConsts: true}) {
			w, g := firstDiff(want, got)
			return "generic-instances-differ", fmt.Sprintf("type arguments / program differ:\n  source: %s\n  output: %s\n%s", w, g, stmt), "both-accept"
		}
	}
	return "", "", "both-accept"
}

func TestC07(t *testing.T) {
	r := hx.Start(t, "C07")
	r.SetRule("one call of / reference to a generic function per program: 21 generic functions (1-3 type parameters; any, comparable, union and ~ constraints, method and method+type-set constraints, core-type constraints ~[]E and ~map[K]V, parameters using type parameters inside slices, maps, pointers, channels, functions and generic struct types, variadic tails, un-inferable parameters) x argument lists drawn from typed values, untyped constants of every kind, nil, composite and function literals, generic function values and partial applications, nested generic calls (occasionally the wrong number), optional full or partial explicit instantiation, spread calls, typed result contexts and assignment of a generic function to a typed function variable. Oracle: go/types on the source: accept/reject must agree; for accepted programs the result / reference type reported by the builder equals go/types' (context-free), the emitted code type-checks and its canonical dump (which contains the type arguments go/types records for every generic callee, Info.Instances) equals the source's. Non-trivial: the oracle rejects, or a type argument is inferred from an untyped constant, a function-valued or nil argument, or a partial explicit list; distinct by statement.")
	r.Assume("go/types (go1.23) is the oracle of inference", "inference itself is go/types' own routine reached through linkname; what is under test is the builder's adapter around it")
	defer r.Done()
	eval := func(c *progCase) (string, string) {
		sig, msg, _ := c07Eval(c)
		return sig, msg
	}
	if r.Replay != "" {
		var h c07History
		if err := r.ReplayInput(&h); err == nil && len(h.Calls) > 0 {
			r.Eval()
			if sig, msg, _ := c07HistoryEval(&h); sig != "" {
				r.Report(&h, sig, "%s", msg)
			}
			return
		}
		var c progCase
		if err := r.ReplayInput(&c); err != nil {
			t.Fatal(err)
		}
		r.Eval()
		if sig, msg := eval(&c); sig != "" {
			r.Report(&c, sig, "%s", msg)
		}
		return
	}
	if r.Shard == 0 {
		replayFindings(r, eval)
	}
	// Histories within one package: a rejected call (CallWithEx returns the error) must not change what
	// later calls in the same package infer.
	r.Check(t, "calls-after-rejected-calls", r.N(300, 20000), func(t *rapid.T) {
		n := rapid.IntRange(2, 5).Draw(t, "ncalls")
		h := &c07History{}
		for i := 0; i < n; i++ {
			h.Calls = append(h.Calls, rapid.IntRange(0, len(c07LibCalls)-1).Draw(t, "call"))
		}
		sig, msg, rejected := c07HistoryEval(h)
		r.Eval()
		r.Class("history-in-one-package")
		if sig != "" {
			if f := r.MatchKnown(sig); f != nil {
				r.Known(f)
				return
			}
			r.Fail(t, h, sig, "%s", msg)
		}
		if rejected > 0 {
			r.Class("valid-call-after-rejected-call")
			r.Nontrivial(fmt.Sprint("history", h.Calls))
		}
	})
	r.Check(t, "generic-calls", r.N(6000, 200000), func(t *rapid.T) {
		src, feats := gen.GenericProgram(t)
		fs := append([]string{}, feats...)
		sort.Strings(fs)
		c := &progCase{Files: []string{src}, Note: strings.Join(dedupStrings(fs), ",")}
		sig, msg, cls := c07Eval(c)
		r.Eval()
		r.Class("outcome:" + cls)
		if sig != "" {
			if f := r.MatchKnown(sig); f != nil {
				r.Known(f)
				return
			}
			if f := r.MatchKnownOf("C03", strings.TrimPrefix(sig, "generic-")); f != nil {
				r.Class("contaminated-by:" + f.ID)
				return
			}
			r.Fail(t, c, sig, "%s", msg)
		}
		r.Class(feats...)
		if cls == "both-reject" || len(feats) > 0 {
			r.Nontrivial(src[strings.LastIndex(src, "func f()"):])
		}
		r.Sample(func() any {
			return map[string]any{"outcome": cls, "statement": src[strings.LastIndex(src, "func f()"):]}
		})
	})
}

func dedupStrings(xs []string) []string {
	var out []string
	for i, x := range xs {
		if i == 0 || x != xs[i-1] {
			out = append(out, x)
		}
	}
	return out
}

// ---- histories of generic calls in one package ----------------------------------------------------

const c07LibPath = "example.com/verif/gl"

const c07LibSrc = `package gl

var (
	I32 int32
	I64 int64
	S   string
	M   map[string]bool
	XS  []int
	F   func(int) string
)

func Pair[T any](a, b T) T                     { return a }
func Keys[K comparable, V any](m map[K]V) []K  { return nil }
func Id[T any](x T) T                          { return x }
func Sum[T ~int | ~float64](xs ...T) T         { var z T; return z }
func Apply[A, B any](x A, f func(A) B) B       { var z B; return z }
`

func init() { oracle.RegisterSource(c07LibPath, c07LibSrc) }

// c07LibCalls: calls of the library's generic functions, some valid and some not (go/types decides)
var c07LibCalls = []struct {
	fn   string
	args []string
}{
	{"Pair", []string{"I32", "I64"}}, {"Pair", []string{"I64", "I64"}}, {"Pair", []string{"S", "I32"}}, {"Pair", []string{"S", "S"}},
	{"Keys", []string{"M"}}, {"Keys", []string{"XS"}}, {"Id", []string{"S"}}, {"Id", []string{"M"}}, {"Sum", []string{"S"}}, {"Sum", []string{"I64"}},
	{"Apply", []string{"I64", "F"}}, {"Apply", []string{"I32", "S"}}, {"Apply", []string{"I64", "Id"}},
}

type c07History struct {
	Calls []int `json:"calls"` // indices into c07LibCalls, issued in this order in one function body
}

// c07HistoryEval issues the calls one after another in one package through CallWithEx. Oracle: each
// call alone, checked by go/types: same verdict, and for accepted calls the same result type.
func c07HistoryEval(h *c07History) (sig, msg string, rejectedBeforeValid int) {
	var perr any
	rejected := 0
	func() {
		defer func() { perr = recover() }()
		pkg := gogen.NewPackage("", "main", &gogen.Config{Importer: oracle.Importer()})
		lib := pkg.Import(c07LibPath)
		cb := pkg.NewFunc(nil, "f", nil, nil, false).BodyStart(pkg)
		for step, k := range h.Calls {
			c := c07LibCalls[k%len(c07LibCalls)]
			var as []string
			for _, a := range c.args {
				as = append(as, "gl."+a)
			}
			expr := "gl." + c.fn + "(" + strings.Join(as, ", ") + ")"
			chk := oracle.CheckSources("main", map[string]string{"c.go": "package main\n\nimport \"" + c07LibPath + "\"\n\nvar r = " + expr + "\n"}, oracle.Importer())
			base := cb.InternalStack().Len()
			cb.Val(lib.Ref(c.fn))
			for _, a := range c.args {
				cb.Val(lib.Ref(a))
			}
			err := cb.CallWithEx(len(c.args), 0, 0)
			switch {
			case chk.OK() && err != nil:
				sig = fmt.Sprintf("history-verdict|go=true|gogen=false|after-rejected=%v", rejected > 0)
				msg = fmt.Sprintf("step %d: %s is valid (go/types) but rejected after %d rejected call(s) in the same package: %v\nhistory: %v", step, expr, rejected, err, h.Calls)
				return
			case !chk.OK() && err == nil:
				sig = fmt.Sprintf("history-verdict|go=false(%s)|gogen=true", oracle.MsgClass(chk.ErrText(1)))
				msg = fmt.Sprintf("step %d: %s is rejected by go/types (%s) but accepted by the builder\nhistory: %v", step, expr, chk.ErrText(1), h.Calls)
				return
			case err != nil:
				rejected++
			default:
				if rejected > 0 {
					rejectedBeforeValid++
				}
				want := oracle.TypeKey(chk.Pkg.Scope().Lookup("r").Type())
				if got := oracle.TypeKey(cb.InternalStack().Get(-1).Type); got != want {
					sig = fmt.Sprintf("history-result-type|after-rejected=%v", rejected > 0)
					msg = fmt.Sprintf("step %d: %s has type %s, the builder reports %s\nhistory: %v", step, expr, want, got, h.Calls)
					return
				}
			}
			cb.InternalStack().SetLen(base) // every call is its own statement; a rejected call leaves its operands
		}
	}()
	if perr != nil && sig == "" {
		if k := drive.ClassifyPanic(perr); k == "runtime" || k == "other" {
			return "history-fault", fmt.Sprintf("run-time fault: %v\nhistory: %v", perr, h.Calls), rejectedBeforeValid
		}
		return "history-panic|" + normMsg(fmt.Sprint(perr)), fmt.Sprintf("CallWithEx panicked instead of returning the error: %v\nhistory: %v", perr, h.Calls), rejectedBeforeValid
	}
	return sig, msg, rejectedBeforeValid
}
