package props

import (
	"fmt"
	"sort"
	"strings"
	"testing"

	"pgregory.net/rapid"

	"verif/h/gen"
	"verif/h/hx"
	"verif/h/oracle"
)

// ---- C07: generic inference and instantiation agree with the Go type checker -------------------

func c07Eval(c *progCase) (sig, msg, cls string) {
	feats := c.Note
	td, _, pr := c03Eval(c, false)
	if pr.Failure != "" || pr.Res.PanicKind == "unsupported" {
		return "", "", "skipped"
	}
	if pr.Res.PanicKind == "runtime" || pr.Res.PanicKind == "other" {
		return "inference-fault|" + normMsg(fmt.Sprint(pr.Res.Panic)), fmt.Sprintf("run-time fault: %v\n%s", pr.Res.Panic, firstLines(pr.Res.Stack, 25)), "fault"
	}
	goOK, ggOK := pr.Src.OK(), pr.Res.Accepted()
	stmt := c.Files[0][strings.LastIndex(c.Files[0], "func f()"):]
	if goOK != ggOK {
		gomsg := ""
		if !goOK {
			gomsg = oracle.MsgClass(pr.Src.ErrText(1))
		}
		return fmt.Sprintf("generic-verdict|go=%v(%s)|gogen=%v(%s)|feats=%s", goOK, gomsg, ggOK, normMsg(pr.Res.ErrText()), feats),
			fmt.Sprintf("go/types %v (%s), builder %v (%s)\n%s", goOK, pr.Src.ErrText(1), ggOK, pr.Res.ErrText(), stmt), "verdict-differs"
	}
	if !goOK {
		return "", "", "both-reject"
	}
	if td != nil {
		return "generic-" + td.sig(), td.String() + "\n" + stmt, "both-accept"
	}
	if !pr.Out.OK() {
		return "generic-output-ill-typed|" + normMsg(pr.Out.ErrText(1)), "emitted code rejected: " + pr.Out.ErrText(2) + "\n" + stmt, "both-accept"
	}
	want, got := oracle.Dump(pr.Src), oracle.Dump(pr.Out)
	if want != got {
		if oracle.DumpWith(pr.Src, oracle.DumpOpts{FoldBoolConsts: true}) != oracle.DumpWith(pr.Out, oracle.DumpOpts{FoldBoolConsts: true}) {
			w, g := firstDiff(want, got)
			return "generic-instances-differ", fmt.Sprintf("type arguments / program differ:\n  source: %s\n  output: %s\n%s", w, g, stmt), "both-accept"
		}
	}
	return "", "", "both-accept"
}

func TestC07(t *testing.T) {
	r := hx.Start(t, "C07")
	r.SetRule("one call of / reference to a generic function per program: 21 generic functions (1-3 type parameters; any, comparable, union and ~ constraints, method and method+type-set constraints, core-type constraints ~[]E and ~map[K]V, parameters using type parameters inside slices, maps, pointers, channels, functions and generic struct types, variadic tails, un-inferable parameters) x argument lists drawn from typed values, untyped constants of every kind, nil, composite and function literals, generic function values and partial applications, nested generic calls (occasionally the wrong number), optional full or partial explicit instantiation, spread calls, typed result contexts and assignment of a generic function to a typed function variable. Oracle: go/types on the source: accept/reject must agree; for accepted programs the result / reference type reported by the builder equals go/types' (context-free), the emitted code type-checks and its canonical dump (which contains the type arguments go/types records for every generic callee, Info.Instances) equals the source's. Non-trivial: the oracle rejects, or a type argument is inferred from an untyped constant, a function-valued or nil argument, or a partial explicit list; distinct by statement.")
	r.Assume("go/types (go1.23) is the oracle of inference", "inference itself is go/types' own routine reached through linkname; what is under test is the builder's adapter around it")
	defer r.Done()
	eval := func(c *progCase) (string, string) {
		sig, msg, _ := c07Eval(c)
		return sig, msg
	}
	if r.Replay != "" {
		var c progCase
		if err := r.ReplayInput(&c); err != nil {
			t.Fatal(err)
		}
		r.Eval()
		if sig, msg := eval(&c); sig != "" {
			r.Report(&c, sig, "%s", msg)
		}
		return
	}
	if r.Shard == 0 {
		replayFindings(r, eval)
	}
	r.Check(t, "generic-calls", r.N(6000, 200000), func(t *rapid.T) {
		src, feats := gen.GenericProgram(t)
		fs := append([]string{}, feats...)
		sort.Strings(fs)
		c := &progCase{Files: []string{src}, Note: strings.Join(dedupStrings(fs), ",")}
		sig, msg, cls := c07Eval(c)
		r.Eval()
		r.Class("outcome:" + cls)
		if sig != "" {
			if f := r.MatchKnown(sig); f != nil {
				r.Known(f)
				return
			}
			if f := r.MatchKnownOf("C03", strings.TrimPrefix(sig, "generic-")); f != nil {
				r.Class("contaminated-by:" + f.ID)
				return
			}
			r.Fail(t, c, sig, "%s", msg)
		}
		r.Class(feats...)
		if cls == "both-reject" || len(feats) > 0 {
			r.Nontrivial(src[strings.LastIndex(src, "func f()"):])
		}
		r.Sample(func() any {
			return map[string]any{"outcome": cls, "statement": src[strings.LastIndex(src, "func f()"):]}
		})
	})
}

func dedupStrings(xs []string) []string {
	var out []string
	for i, x := range xs {
		if i == 0 || x != xs[i-1] {
			out = append(out, x)
		}
	}
	return out
}
