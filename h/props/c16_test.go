package props

import (
	"fmt"
	"go/ast"
	"go/types"
	"strings"
	"testing"

	"github.com/goplus/gogen"
	"pgregory.net/rapid"

	"verif/h/drive"
	"verif/h/gen"
	"verif/h/hx"
)

// ---- C16: builder state is balanced across every construct -------------------------------------

type c16Frame struct {
	opener  string
	scope   *types.Scope
	fn      *gogen.Func
	vblock  bool
	len     int
	labels  map[string]*gogen.Label
	nesting int
}

type balanceChecker struct {
	d                 *drive.Driver
	frames            []c16Frame
	stmtLen           []int
	bad               string
	steps             int
	maxDepth          int
	kinds             map[string]bool
	labelSet          []map[string]bool // names of labels declared per open function body (harness-side)
	nstmt, constStmts int
}

var c16Openers = map[string]string{
	"Block": "End(block)", "If": "End(if)", "For": "End(for)", "Switch": "End(switch)", "Case": "End(case)",
	"TypeSwitch": "End(typeswitch)", "TypeCase": "End(typecase)", "Select": "End(select)", "CommCase": "End(commcase)",
	"ForRangeEx": "End(range)", "NewClosureWith": "End(closure)",
}

func (b *balanceChecker) fail(format string, a ...any) {
	if b.bad == "" {
		b.bad = fmt.Sprintf(format, a...)
	}
}

func (b *balanceChecker) snapshotLabels() map[string]*gogen.Label {
	out := map[string]*gogen.Label{}
	if len(b.labelSet) == 0 {
		return out
	}
	for name := range b.labelSet[len(b.labelSet)-1] {
		if l, ok := b.d.CB.LookupLabel(name); ok {
			out[name] = l
		}
	}
	return out
}

func (b *balanceChecker) before(name string) {
	cb := b.d.CB
	if name == "BodyStart" && (len(b.frames) == 0 || b.frames[len(b.frames)-1].opener != "NewClosureWith") {
		// a declared function: its End is "End(func)"
		b.frames = append(b.frames, c16Frame{opener: "BodyStart", scope: cb.Scope(), fn: cb.Func(), vblock: cb.InVBlock(), len: cb.InternalStack().Len(), labels: b.snapshotLabels()})
		b.labelSet = append(b.labelSet, map[string]bool{})
		return
	}
	if name == "BodyStart" {
		b.labelSet = append(b.labelSet, map[string]bool{}) // closure body: own label space
		return
	}
	if _, ok := c16Openers[name]; ok {
		b.frames = append(b.frames, c16Frame{opener: name, scope: cb.Scope(), fn: cb.Func(), vblock: cb.InVBlock(), len: cb.InternalStack().Len(), labels: b.snapshotLabels()})
		if len(b.frames) > b.maxDepth {
			b.maxDepth = len(b.frames)
		}
		b.kinds[name] = true
	}
}

func (b *balanceChecker) after(s drive.Step) {
	b.steps++
	cb := b.d.CB
	if s.Delta != drive.Unknown && s.After-s.Before != s.Delta {
		b.fail("operation %s changed the operand stack by %+d, its documented arity is %+d (len %d -> %d)", s.Name, s.After-s.Before, s.Delta, s.Before, s.After)
		return
	}
	if !strings.HasPrefix(s.Name, "End(") || s.Name == "End(func)" && len(b.frames) == 0 {
		return
	}
	if len(b.frames) == 0 {
		b.fail("%s without an open construct", s.Name)
		return
	}
	f := b.frames[len(b.frames)-1]
	want := c16Openers[f.opener]
	if f.opener == "BodyStart" {
		want = "End(func)"
	}
	if s.Name != want {
		b.fail("%s closes a construct opened by %s", s.Name, f.opener)
		return
	}
	b.frames = b.frames[:len(b.frames)-1]
	if s.Name == "End(func)" || s.Name == "End(closure)" {
		b.labelSet = b.labelSet[:len(b.labelSet)-1]
	}
	wantLen := f.len
	if s.Name == "End(closure)" {
		wantLen++ // the function value
	}
	switch {
	case cb.Scope() != f.scope:
		b.fail("%s did not restore the scope that was current when %s was issued", s.Name, f.opener)
	case cb.Func() != f.fn:
		b.fail("%s did not restore the current function (opened by %s)", s.Name, f.opener)
	case cb.InVBlock() != f.vblock:
		b.fail("%s did not restore the vblock flag", s.Name)
	case cb.InternalStack().Len() != wantLen:
		b.fail("%s left the operand stack at %d, it was %d when %s was issued", s.Name, cb.InternalStack().Len(), f.len, f.opener)
	}
	for name, l := range f.labels {
		if got, ok := cb.LookupLabel(name); !ok || got != l {
			b.fail("after %s the label %s of the enclosing function is no longer visible", s.Name, name)
		}
	}
}

func (b *balanceChecker) stmtStart(s ast.Stmt) {
	if ls, ok := s.(*ast.LabeledStmt); ok && len(b.labelSet) > 0 {
		b.labelSet[len(b.labelSet)-1][ls.Label.Name] = true
	}
	// Every third statement is preceded by an expression statement whose value is a constant: the
	// builder skips it (nothing is emitted) and, like any completed statement, it must leave the
	// operand stack where it was.
	b.nstmt++
	if b.nstmt%3 == 0 {
		cb := b.d.CB
		n0 := cb.InternalStack().Len()
		cb.Val(7).EndStmt()
		b.constStmts++
		if n1 := cb.InternalStack().Len(); n1 != n0 {
			b.fail("a skipped constant expression statement (Val(7).EndStmt()) changed the operand stack from %d to %d", n0, n1)
		}
	}
	b.stmtLen = append(b.stmtLen, b.d.CB.InternalStack().Len())
}

func (b *balanceChecker) stmtEnd(s ast.Stmt) {
	n := len(b.stmtLen)
	if n == 0 {
		return
	}
	start := b.stmtLen[n-1]
	b.stmtLen = b.stmtLen[:n-1]
	if got := b.d.CB.InternalStack().Len(); got != start {
		b.fail("after the completed statement %T the operand stack has %d elements, the enclosing block's base is %d", s, got, start)
	}
}

func c16Eval(c *progCase) (sig, msg string, bc *balanceChecker, pr *progRun) {
	pr = runProgram(c, &runHooks{Setup: func(d *drive.Driver, pr *progRun) {
		bc = &balanceChecker{d: d, kinds: map[string]bool{}}
		d.Before, d.After, d.OnStmtStart, d.OnStmt = bc.before, bc.after, bc.stmtStart, bc.stmtEnd
	}})
	if bc == nil || pr.Failure != "" || !pr.Src.OK() {
		return "", "", bc, pr
	}
	if !pr.Res.Accepted() {
		// Only error-free, well-nested histories are quantified over - but an imbalance observed on the
		// error-free prefix of a history (nothing had been reported yet; the build was aborted by a
		// later panic) is an observation about an error-free history.
		if bc.bad != "" && len(pr.Res.Errs) == 0 && pr.Res.Panic != nil {
			return "unbalanced|" + normMsg(bc.bad), bc.bad + "\n(the build was then aborted: " + pr.Res.ErrText() + ")", bc, pr
		}
		return "", "", bc, pr
	}
	if bc.bad == "" {
		cb := pr.Res.Pkg.CB()
		switch {
		case cb.InternalStack().Len() != 0:
			bc.fail("at the end of the build the operand stack holds %d elements", cb.InternalStack().Len())
		case cb.Scope() != pr.Res.Pkg.Types.Scope():
			bc.fail("at the end of the build the current scope is not the package scope")
		case cb.Func() != nil:
			bc.fail("at the end of the build a function is still current")
		case len(bc.frames) != 0:
			bc.fail("at the end of the build %d constructs are still open", len(bc.frames))
		}
	}
	if bc.bad != "" {
		return "unbalanced|" + normMsg(bc.bad), bc.bad, bc, pr
	}
	return "", "", bc, pr
}

func TestC16(t *testing.T) {
	r := hx.Start(t, "C16")
	r.SetRule("G-valid programs with the deep-nesting profile (statement nesting up to 8: function, closure, block, if/else, for, range, switch/case, type switch, select, initialisers, const blocks), driven operation by operation; after every operation: stack delta == documented arity (table = the delta given at each call site of h/drive); after every completed statement: stack length == length at the statement's start; at every End: Scope() pointer, Func(), InVBlock() and the visible labels of the enclosing function equal the snapshot taken when the construct was opened, stack length restored (+1 for a closure value); at the end: empty stack, package scope, no current function. Non-trivial: nesting depth >= 3 with >= 2 different block kinds; distinct by source.")
	r.Assume("only error-free well-nested histories are quantified over", "the arity table is part of the harness: a wrong entry is a harness bug, never a finding")
	defer r.Done()
	eval := func(c *progCase) (string, string) {
		sig, msg, _, _ := c16Eval(c)
		return sig, msg
	}
	if r.Replay != "" {
		var c progCase
		if err := r.ReplayInput(&c); err != nil {
			t.Fatal(err)
		}
		r.Eval()
		if sig, msg := eval(&c); sig != "" {
			r.Report(&c, sig, "%s", msg)
		}
		return
	}
	if r.Shard == 0 {
		replayFindings(r, eval)
	}
	avoid := knownAvoid("C16")
	r.Check(t, "balanced", r.N(3000, 100000), func(t *rapid.T) {
		xgo := rapid.IntRange(0, 3).Draw(t, "xgo") == 0
		p := gen.GenProgram(t, gen.ProgOpts{Avoid: avoid, MaxNest: rapid.IntRange(3, 8).Draw(t, "nest"), MaxStmts: 5, NFuncs: 2, MaxDepth: 2})
		c := &progCase{Files: []string{p.Src}, XGo: xgo}
		sig, msg, bc, pr := c16Eval(c)
		r.Eval()
		if bc == nil || pr.Failure != "" || !pr.Src.OK() {
			r.Class("generator_unsound")
			return
		}
		if !pr.Res.Accepted() && sig == "" {
			r.Class("not-accepted(outside-quantifier)")
			return
		}
		if sig != "" {
			if f := r.MatchKnown(sig); f != nil {
				r.Known(f)
				return
			}
			r.Fail(t, c, sig, "%s", msg)
		}
		r.ClassN("operations-checked", int64(bc.steps))
		r.Class(fmt.Sprintf("depth:%d", min(bc.maxDepth, 12)))
		for k := range bc.kinds {
			r.Class("block:" + k)
		}
		if bc.maxDepth >= 3 && len(bc.kinds) >= 2 {
			r.Nontrivial(p.Src)
		}
		r.Sample(func() any {
			return map[string]any{"xgo": xgo, "max_depth": bc.maxDepth, "operations": bc.steps, "source": p.Src}
		})
	})
}
