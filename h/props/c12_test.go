//go:build verif

package props

import (
	"bytes"
	"fmt"
	"go/ast"
	"go/constant"
	"go/format"
	"go/parser"
	"go/token"
	"io/fs"
	"os"
	"os/exec"
	"path/filepath"
	"reflect"
	"runtime"
	"sort"
	"strconv"
	"strings"
	"testing"

	"github.com/goplus/gogen"
	"pgregory.net/rapid"

	"verif/h/gen"
	"verif/h/hx"
)

// ---- C12: printing is lossless and canonical ---------------------------------------------------

var posType = reflect.TypeOf(token.NoPos)

// stripPositions removes all position information from a syntax tree. Positions that carry meaning
// beyond location are kept as the flag value 1: CallExpr.Ellipsis, TypeSpec.Assign, GenDecl.Lparen.
func stripPositions(n ast.Node) {
	ast.Inspect(n, func(n ast.Node) bool {
		if n == nil {
			return false
		}
		var ellipsis, assign, lparen bool
		switch x := n.(type) {
		case *ast.CallExpr:
			ellipsis = x.Ellipsis.IsValid()
		case *ast.TypeSpec:
			assign = x.Assign.IsValid()
		case *ast.GenDecl:
			lparen = x.Lparen.IsValid() && len(x.Specs) != 1
		}
		v := reflect.ValueOf(n).Elem()
		for i := 0; i < v.NumField(); i++ {
			f := v.Field(i)
			if f.Type() == posType && f.CanSet() {
				f.SetInt(0)
			}
		}
		switch x := n.(type) {
		case *ast.CallExpr:
			if ellipsis {
				x.Ellipsis = 1
			}
		case *ast.TypeSpec:
			if assign {
				x.Assign = 1
			}
		case *ast.GenDecl:
			if lparen {
				x.Lparen = 1
			}
			x.Doc = nil
		case *ast.File:
			x.Doc, x.Comments = nil, nil
		case *ast.FuncDecl:
			x.Doc = nil
		case *ast.Field:
			x.Doc, x.Comment = nil, nil
		case *ast.ValueSpec:
			x.Doc, x.Comment = nil, nil
		case *ast.ImportSpec:
			x.Doc, x.Comment = nil, nil
			if x.Name != nil {
				x.Name.NamePos = 0
			}
		case *ast.Ident:
			x.Obj = nil
		}
		if ts, ok := n.(*ast.TypeSpec); ok {
			ts.Doc, ts.Comment = nil, nil
		}
		return true
	})
}

// dropOperandParens removes every ParenExpr that encloses an operand of a unary or binary operator
// (so that placing parentheses according to precedence is entirely the printer's job), like the
// trees the builder makes. Parentheses the grammar needs elsewhere are kept.
func dropOperandParens(n ast.Node) {
	unwrap := func(e ast.Expr) ast.Expr {
		for {
			p, ok := e.(*ast.ParenExpr)
			if !ok {
				return e
			}
			// parentheses that keep a composite literal out of a statement header are the builder's
			// business (C01), not the printer's: they stay
			hasLit := false
			ast.Inspect(p.X, func(n ast.Node) bool {
				switch n.(type) {
				case *ast.CompositeLit:
					hasLit = true
				case *ast.FuncLit:
					return false
				}
				return !hasLit
			})
			if hasLit {
				return e
			}
			if _, ok := p.X.(*ast.FuncLit); ok {
				return e
			}
			e = p.X
		}
	}
	ast.Inspect(n, func(n ast.Node) bool {
		switch x := n.(type) {
		case *ast.BinaryExpr:
			x.X, x.Y = unwrap(x.X), unwrap(x.Y)
		case *ast.UnaryExpr:
			if x.Op != token.ARROW && x.Op != token.AND { // <-(expr) and &(expr) bind to composite forms
				x.X = unwrap(x.X)
			}
		}
		return true
	})
}

func sortImports(f *ast.File) {
	for _, d := range f.Decls {
		g, ok := d.(*ast.GenDecl)
		if !ok || g.Tok != token.IMPORT {
			continue
		}
		sort.SliceStable(g.Specs, func(i, j int) bool {
			a, b := g.Specs[i].(*ast.ImportSpec), g.Specs[j].(*ast.ImportSpec)
			if a.Path.Value != b.Path.Value {
				return a.Path.Value < b.Path.Value
			}
			an, bn := "", ""
			if a.Name != nil {
				an = a.Name.Name
			}
			if b.Name != nil {
				bn = b.Name.Name
			}
			return an < bn
		})
	}
	// one import declaration per file, as the builder emits; several are merged
	var merged *ast.GenDecl
	var decls []ast.Decl
	for _, d := range f.Decls {
		if g, ok := d.(*ast.GenDecl); ok && g.Tok == token.IMPORT {
			if merged == nil {
				merged = g
				decls = append(decls, g)
			} else {
				merged.Specs = append(merged.Specs, g.Specs...)
			}
			continue
		}
		decls = append(decls, d)
	}
	if merged != nil {
		sort.SliceStable(merged.Specs, func(i, j int) bool {
			return merged.Specs[i].(*ast.ImportSpec).Path.Value < merged.Specs[j].(*ast.ImportSpec).Path.Value
		})
		if len(merged.Specs) > 1 {
			merged.Lparen = 1
		}
	}
	f.Decls = decls
	f.Imports = nil
}

// astDiff compares two syntax trees structurally: positions, objects, scopes, comments and
// parentheses are ignored; basic literals are compared by value for numbers. It returns a
// description of the first difference ("" if none).
func astDiff(a, b any) string {
	return nodeDiff(reflect.ValueOf(a), reflect.ValueOf(b), "")
}

var (
	exprType     = reflect.TypeOf((*ast.Expr)(nil)).Elem()
	parenType    = reflect.TypeOf(&ast.ParenExpr{})
	objType      = reflect.TypeOf(&ast.Object{})
	scopeType    = reflect.TypeOf(&ast.Scope{})
	cgroupType   = reflect.TypeOf(&ast.CommentGroup{})
	cgroupsType  = reflect.TypeOf([]*ast.CommentGroup{})
	basicLitType = reflect.TypeOf(&ast.BasicLit{})
	importsType  = reflect.TypeOf([]*ast.ImportSpec{})
)

func unparenV(v reflect.Value) reflect.Value {
	for v.IsValid() && v.Kind() == reflect.Interface && !v.IsNil() {
		e := v.Elem()
		if e.Type() == parenType {
			v = e.Elem().FieldByName("X")
			continue
		}
		break
	}
	return v
}

func nodeDiff(a, b reflect.Value, path string) string {
	if a.IsValid() && a.Kind() == reflect.Interface && a.Type() == exprType {
		a, b = unparenV(a), unparenV(b)
	}
	if !a.IsValid() || !b.IsValid() {
		if a.IsValid() != b.IsValid() {
			return path + ": one side missing"
		}
		return ""
	}
	if a.Type() != b.Type() {
		return fmt.Sprintf("%s: %s vs %s", path, a.Type(), b.Type())
	}
	switch a.Type() {
	case posType, objType, scopeType, cgroupType, cgroupsType, importsType:
		return ""
	}
	switch a.Kind() {
	case reflect.Interface, reflect.Ptr:
		if a.IsNil() || b.IsNil() {
			if emptyFieldList(a) && emptyFieldList(b) {
				return "" // func() and func() () are the same signature
			}
			if a.IsNil() != b.IsNil() {
				return fmt.Sprintf("%s: nil vs non-nil (%s)", path, a.Type())
			}
			return ""
		}
		if a.Kind() == reflect.Interface {
			ae, be := a.Elem(), b.Elem()
			if a.Type() == exprType {
				for ae.Type() == parenType {
					ae = unparenV(ae.Elem().FieldByName("X")).Elem()
				}
				for be.Type() == parenType {
					be = unparenV(be.Elem().FieldByName("X")).Elem()
				}
			}
			if ae.Type() != be.Type() {
				return fmt.Sprintf("%s: %s vs %s", path, ae.Type(), be.Type())
			}
			return nodeDiff(ae, be, path)
		}
		if a.Type() == basicLitType {
			la, lb := a.Interface().(*ast.BasicLit), b.Interface().(*ast.BasicLit)
			if la.Kind != lb.Kind || normLit(la) != normLit(lb) {
				return fmt.Sprintf("%s: literal %s vs %s", path, la.Value, lb.Value)
			}
			return ""
		}
		return nodeDiff(a.Elem(), b.Elem(), path+"."+a.Elem().Type().Name())
	case reflect.Struct:
		for i := 0; i < a.NumField(); i++ {
			name := a.Type().Field(i).Name
			if name == "Incomplete" || name == "Doc" || name == "Comment" || name == "Comments" || name == "Unresolved" || name == "Scope" || name == "GoVersion" || name == "FileStart" || name == "FileEnd" {
				continue
			}
			if a.Type() == reflect.TypeOf(ast.GenDecl{}) && name == "Lparen" {
				continue
			}
			if d := nodeDiff(a.Field(i), b.Field(i), path+"."+name); d != "" {
				return d
			}
		}
		return ""
	case reflect.Slice:
		if a.Len() != b.Len() {
			return fmt.Sprintf("%s: %d vs %d elements", path, a.Len(), b.Len())
		}
		for i := 0; i < a.Len(); i++ {
			if d := nodeDiff(a.Index(i), b.Index(i), fmt.Sprintf("%s[%d]", path, i)); d != "" {
				return d
			}
		}
		return ""
	case reflect.String:
		if a.String() != b.String() {
			return fmt.Sprintf("%s: %q vs %q", path, a.String(), b.String())
		}
	case reflect.Bool:
		if a.Bool() != b.Bool() {
			return fmt.Sprintf("%s: %v vs %v", path, a.Bool(), b.Bool())
		}
	case reflect.Int, reflect.Int64, reflect.Int32:
		if a.Int() != b.Int() {
			return fmt.Sprintf("%s: %d vs %d", path, a.Int(), b.Int())
		}
	}
	return ""
}

func emptyFieldList(v reflect.Value) bool {
	if v.Kind() != reflect.Ptr {
		return false
	}
	if v.IsNil() {
		return v.Type() == reflect.TypeOf(&ast.FieldList{})
	}
	fl, ok := v.Interface().(*ast.FieldList)
	return ok && len(fl.List) == 0
}

// normLit normalises number literals the way gofmt does (lower-case prefix/exponent, upper-case hex digits are kept).
func normLit(l *ast.BasicLit) string {
	switch l.Kind {
	case token.INT, token.FLOAT, token.IMAG:
		// gofmt rewrites the spelling (0X1F -> 0x1F, 1E3 -> 1e3, 0O17 -> 0o17, 017i -> 17i): the same
		// literal is the same kind and the same exact value
		if v := constant.MakeFromLiteral(l.Value, l.Kind, 0); v.Kind() != constant.Unknown {
			return l.Kind.String() + ":" + v.ExactString()
		}
		return strings.ToLower(l.Value)
	}
	return l.Value
}

// c12Check prints f (position-less) and applies the three oracles. It returns a signature and message.
func c12Check(f *ast.File, comments map[ast.Stmt]*ast.CommentGroup) (sig, msg, text string) {
	var buf bytes.Buffer
	var err error
	func() {
		defer func() {
			if e := recover(); e != nil {
				err = fmt.Errorf("printer panicked: %v", e)
			}
		}()
		if comments != nil {
			err = gogen.VerifFormatCommented(&buf, token.NewFileSet(), f, comments)
		} else {
			err = gogen.VerifFormatNode(&buf, token.NewFileSet(), f)
		}
	}()
	if err != nil {
		return "print-error|" + normMsg(err.Error()), "printing failed: " + err.Error(), ""
	}
	text = buf.String()
	fset := token.NewFileSet()
	back, err := parser.ParseFile(fset, "out.go", text, parser.ParseComments|parser.SkipObjectResolution)
	if err != nil {
		return "reparse-error|" + normMsg(err.Error()), fmt.Sprintf("the printed text does not parse: %v\n%s", err, contextOf(text, err.Error())), text
	}
	if d := astDiff(f, back); d != "" {
		return "roundtrip|" + normMsg(d), "parse(print(t)) differs from t at " + d, text
	}
	if comments != nil {
		if s, m := c12Comments(f, comments, back, fset, text); s != "" {
			return s, m, text
		}
	}
	formatted, err := format.Source([]byte(text))
	if err != nil {
		return "gofmt-error|" + normMsg(err.Error()), "gofmt rejects the printed text: " + err.Error(), text
	}
	if string(formatted) != text {
		if gofmtOutputBroken(formatted) {
			// go/format is the oracle of canonical form only while its own output is Go: stock gofmt
			// strips the parentheses of `for (G[int]{} == v) {` (its isTypeName does not know
			// instantiated types) and produces text that no longer parses
			return "", "", text
		}
		a, b := firstDiff(text, string(formatted))
		cls := fixClass(a, b)
		if cls == "indentation" && comments != nil {
			cls = "comment-indentation" // the line after a mis-indented comment
		}
		return "not-fixpoint|" + cls, fmt.Sprintf("the printed text is not a gofmt fixed point:\n  printed: %q\n  gofmt:   %q", a, b), text
	}
	return "", "", text
}

// gofmtOutputBroken reports whether go/format turned parsable text into text that does not parse.
func gofmtOutputBroken(formatted []byte) bool {
	_, err := parser.ParseFile(token.NewFileSet(), "gofmt.go", formatted, parser.SkipObjectResolution)
	return err != nil
}

func fixClass(a, b string) string {
	at, bt := strings.TrimSpace(a), strings.TrimSpace(b)
	switch {
	case strings.Contains(at, "struct {") && bt != at:
		return "empty-struct-or-interface-split"
	case strings.Contains(at, "interface {") && bt != at:
		return "empty-struct-or-interface-split"
	case at == bt && strings.HasPrefix(at, "//"):
		return "comment-indentation"
	case at == bt:
		return "indentation"
	}
	return "other"
}

func contextOf(text, errmsg string) string {
	var line int
	if i := strings.Index(errmsg, "out.go:"); i >= 0 {
		fmt.Sscanf(errmsg[i+7:], "%d", &line)
	}
	lines := strings.Split(text, "\n")
	var b strings.Builder
	for i := line - 2; i <= line+1; i++ {
		if i >= 1 && i <= len(lines) {
			fmt.Fprintf(&b, "    %d: %s\n", i, lines[i-1])
		}
	}
	return b.String()
}

// c12Comments: each comment group occurs exactly once in the output, directly before its statement.
func c12Comments(f *ast.File, comments map[ast.Stmt]*ast.CommentGroup, back *ast.File, fset *token.FileSet, text string) (string, string) {
	// statements in traversal order on both sides correspond (the trees are structurally equal)
	var as, bs []ast.Stmt
	collect := func(root ast.Node, out *[]ast.Stmt) {
		ast.Inspect(root, func(n ast.Node) bool {
			if s, ok := n.(ast.Stmt); ok {
				*out = append(*out, s)
			}
			return true
		})
	}
	collect(f, &as)
	collect(back, &bs)
	if len(as) != len(bs) {
		return "comment|statement-count", "statement lists differ"
	}
	lines := strings.Split(text, "\n")
	for i, s := range as {
		cg := comments[s]
		if cg == nil {
			continue
		}
		for _, c := range cg.List {
			if n := strings.Count(text, strings.TrimSpace(c.Text)+"\n"); n != 1 {
				return fmt.Sprintf("comment|printed-%d-times", n), fmt.Sprintf("comment %q is printed %d times", c.Text, n)
			}
		}
		// the last comment line must be on the line directly before the statement's first line
		stmtLine := fset.Position(bs[i].Pos()).Line
		last := cg.List[len(cg.List)-1].Text
		lastLines := strings.Split(last, "\n")
		want := strings.TrimSpace(lastLines[len(lastLines)-1])
		if stmtLine < 2 || strings.TrimSpace(lines[stmtLine-2]) != want {
			got := ""
			if stmtLine >= 2 {
				got = lines[stmtLine-2]
			}
			return "comment|not-directly-before-statement", fmt.Sprintf("comment %q is not directly before its statement (line before the statement: %q)", last, got)
		}
	}
	return "", ""
}

type c12Case struct {
	Kind string `json:"kind"` // "source" (generated source text) | "corpus" (file path) | "built" (program through the builder)
	Src  string `json:"src,omitempty"`
	Path string `json:"path,omitempty"`
	// CommentAt lists statement indices (in traversal order) that get a comment group
	CommentAt []int `json:"comment_at,omitempty"`
}

// c12Built checks the tree the builder holds for a program against the file it writes.
func c12Built(src string) (sig, msg, text string, ok bool) {
	pr := runProgram(&progCase{Files: []string{src}}, nil)
	if pr.Failure != "" || !pr.Src.OK() || !pr.Res.Accepted() {
		return "", "", "", false
	}
	tree := pr.Res.Pkg.ASTFile()
	text = pr.Res.Output[""]
	back, err := parser.ParseFile(token.NewFileSet(), "out.go", text, parser.SkipObjectResolution)
	if err != nil {
		return "reparse-error|" + normMsg(err.Error()), "the emitted file does not parse: " + err.Error(), text, true
	}
	if d := astDiff(tree, back); d != "" {
		return "roundtrip|" + normMsg(d), "parse(WriteTo) differs from Package.ASTFile at " + d, text, true
	}
	formatted, err := format.Source([]byte(text))
	if err != nil {
		return "gofmt-error|" + normMsg(err.Error()), err.Error(), text, true
	}
	if string(formatted) != text && !gofmtOutputBroken(formatted) {
		a, b := firstDiff(text, string(formatted))
		return "not-fixpoint|" + fixClass(a, b), fmt.Sprintf("the emitted file is not a gofmt fixed point:\n  emitted: %q\n  gofmt:   %q", a, b), text, true
	}
	return "", "", text, true
}

func c12Run(c *c12Case) (sig, msg string, feats []string) {
	if c.Kind == "built" {
		sig, msg, _, _ = c12Built(c.Src)
		return sig, msg, nil
	}
	var src []byte
	switch c.Kind {
	case "corpus":
		data, err := os.ReadFile(c.Path)
		if err != nil {
			return "", "", nil
		}
		src = data
	default:
		src = []byte(c.Src)
	}
	fset := token.NewFileSet()
	f, err := parser.ParseFile(fset, "in.go", src, parser.SkipObjectResolution)
	if err != nil {
		return "", "", []string{"unparsable-input"}
	}
	stripPositions(f)
	dropOperandParens(f)
	sortImports(f)
	var comments map[ast.Stmt]*ast.CommentGroup
	if len(c.CommentAt) > 0 {
		comments = map[ast.Stmt]*ast.CommentGroup{}
		var stmts []ast.Stmt
		ast.Inspect(f, func(n ast.Node) bool {
			if s, ok := n.(ast.Stmt); ok {
				switch s.(type) {
				case *ast.CaseClause, *ast.CommClause, *ast.BlockStmt, *ast.LabeledStmt, *ast.EmptyStmt:
					// the builder attaches comments to ordinary statements
				default:
					stmts = append(stmts, s)
				}
			}
			return true
		})
		for k, idx := range c.CommentAt {
			if len(stmts) == 0 {
				break
			}
			s := stmts[idx%len(stmts)]
			if comments[s] != nil {
				continue
			}
			// position-less comments are given the way the repository's own tests give them: the text
			// starts with a line break (the printer has no position to derive one from)
			cg := &ast.CommentGroup{List: []*ast.Comment{{Text: fmt.Sprintf("\n// comment %d", k)}}}
			if k%3 == 1 {
				cg.List = append(cg.List, &ast.Comment{Text: fmt.Sprintf("// second line %d", k)})
			}
			comments[s] = cg
		}
		feats = append(feats, "comments")
	}
	sig, msg, _ = c12Check(f, comments)
	return sig, msg, feats
}

func TestC12(t *testing.T) {
	r := hx.Start(t, "C12")
	r.SetRule("(i) position-less syntax trees obtained from generated source (expression grammar over all precedence/associativity combinations, unary-after-unary and unary-after-binary chains, channel/function-typed conversions, composite and function literals, labelled and empty statements, type-parameter lists, struct tags) and from G-valid programs, all parentheses around unary/binary operands removed, with 0-3 statement comment groups; (ii) the trees the builder itself holds for G-valid programs (Package.ASTFile); (iii) a corpus: files under GOROOT/src (sharded; thorough: all of them), positions and comments stripped, imports path-sorted. Oracles: the text printed by the internal formatter parses back to a structurally identical tree (positions, objects, redundant parentheses ignored; number literals compared case-insensitively); go/format.Source(text) == text; each comment group printed exactly once, on the line directly before its statement. Non-trivial: tree contains a binary operator nested in another operator, a unary chain, a comment, or is a corpus file; distinct by printed text hash.")
	r.Assume("go/parser and go/format (go1.23) define 'parses back' and 'canonical'", "import specs are handed to the printer path-sorted, as the builder does")
	defer r.Done()
	if r.Replay != "" {
		var c c12Case
		if err := r.ReplayInput(&c); err != nil {
			t.Fatal(err)
		}
		r.Eval()
		if sig, msg, _ := c12Run(&c); sig != "" {
			r.Report(&c, sig, "%s", msg)
		}
		return
	}
	if r.Shard == 0 {
		for _, f := range r.Findings() {
			var c c12Case
			if f.Replay == "" || r.LoadReplay(f, &c) != nil {
				continue
			}
			r.Eval()
			sig, msg, _ := c12Run(&c)
			switch {
			case sig == "":
			case f.Status == "known" && f.Match(sig):
				r.KnownLine(f)
			default:
				r.Report(&c, sig, "replay of %s finding %s: %s", f.Status, f.ID, msg)
			}
		}
	}
	// (i) generated expression/statement sources
	r.Check(t, "generated-trees", r.N(5000, 200000), func(t *rapid.T) {
		var src string
		kind := "syntax"
		if rapid.IntRange(0, 3).Draw(t, "from") == 0 {
			src = gen.GenProgram(t, gen.ProgOpts{MaxStmts: 4, NFuncs: 2}).Src
			kind = "g-valid"
		} else {
			src = gen.SyntaxProgram(t)
		}
		c := &c12Case{Kind: "source", Src: src}
		for i := 0; i < rapid.IntRange(0, 3).Draw(t, "ncomments"); i++ {
			c.CommentAt = append(c.CommentAt, rapid.IntRange(0, 200).Draw(t, "cat"))
		}
		sig, msg, feats := c12Run(c)
		r.Eval()
		r.Class("input:" + kind)
		r.Class(feats...)
		if sig != "" {
			if f := r.MatchKnown(sig); f != nil {
				r.Known(f)
				return
			}
			r.Fail(t, c, sig, "%s", msg)
		}
		r.Nontrivial(src + fmt.Sprint(c.CommentAt))
		r.Sample(func() any {
			s := src
			if len(s) > 700 {
				s = s[len(s)-700:]
			}
			return map[string]any{"kind": kind, "comment_at": c.CommentAt, "tail_of_source": s}
		})
	})
	// (ii) trees built by the builder
	avoid := knownAvoid("C12")
	r.Check(t, "builder-trees", r.N(1500, 60000), func(t *rapid.T) {
		p := gen.GenProgram(t, gen.ProgOpts{Avoid: avoid})
		c := &c12Case{Kind: "built", Src: p.Src}
		sig, msg, text, ok := c12Built(p.Src)
		r.Eval()
		if !ok {
			r.Class("builder-tree-skipped")
			return
		}
		r.Class("input:builder-tree")
		if sig != "" {
			if f := r.MatchKnown(sig); f != nil {
				r.Known(f)
				return
			}
			r.Fail(t, c, sig, "%s", msg)
		}
		r.Nontrivial(text)
	})
	// (iii) corpus
	goroot := runtime.GOROOT()
	if out, err := exec.Command("go", "env", "GOROOT").Output(); err == nil && strings.TrimSpace(string(out)) != "" {
		goroot = strings.TrimSpace(string(out))
	}
	root := filepath.Join(goroot, "src")
	if r2, err := filepath.EvalSymlinks(root); err == nil {
		root = r2
	}
	var files []string
	filepath.WalkDir(root, func(path string, d fs.DirEntry, err error) error {
		if err != nil {
			return nil
		}
		if d.IsDir() {
			if d.Name() == "testdata" || d.Name() == "vendor" {
				return filepath.SkipDir
			}
			return nil
		}
		if strings.HasSuffix(path, ".go") {
			files = append(files, path)
		}
		return nil
	})
	sort.Strings(files)
	step := 1
	if r.Quick() {
		step = 20
	}
	ncorpus := 0
	reported := map[string]bool{}
	for i := r.Shard*step + int(r.Seed%uint64(step)); i < len(files); i += r.NShards * step {
		c := &c12Case{Kind: "corpus", Path: files[i]}
		sig, msg, feats := c12Run(c)
		r.Eval()
		if len(feats) > 0 && feats[0] == "unparsable-input" {
			r.Class("corpus-unparsable")
			continue
		}
		ncorpus++
		r.Class("input:corpus")
		r.Nontrivial("corpus:" + files[i])
		if sig != "" {
			if f := r.MatchKnown(sig); f != nil {
				r.Known(f)
				continue
			}
			if !reported[sig] {
				reported[sig] = true
				r.Report(c, sig, "%s: %s", strings.TrimPrefix(files[i], root+"/"), msg)
			}
		}
	}
	r.Extra("corpus_files_total", len(files))
	r.ClassN("corpus-files-checked", int64(ncorpus))
	_ = strconv.Itoa
}
