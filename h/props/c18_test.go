package props

import (
	"encoding/json"
	"fmt"
	"go/ast"
	"go/parser"
	"go/token"
	"os"
	"path/filepath"
	"runtime"
	"sync"
	"testing"

	"pgregory.net/rapid"

	"verif/h/drive"
	"verif/h/gen"
	"verif/h/hx"
	"verif/h/oracle"

	"go/types"

	"github.com/goplus/gogen"
)

// ---- C18: independent packages can be built concurrently without interference ------------------

type c18Case struct {
	Programs []string `json:"programs"`
	XGo      []bool   `json:"xgo"`
	Procs    int      `json:"procs"`
}

// c18Build builds one program with its own FileSet, Package and importer.
func c18Build(src string, xgo bool) (out string, errText string) {
	fset := token.NewFileSet()
	f, err := parser.ParseFile(fset, "p.go", src, parser.SkipObjectResolution)
	if err != nil {
		return "", "parse: " + err.Error()
	}
	res := drive.Build(fset, []*ast.File{f}, map[string][]byte{"p.go": []byte(src)}, drive.Options{Importer: oracle.NewImporter(), XGo: xgo, PkgPath: "main",
		Setup: func(d *drive.Driver) {
			// Every package extends its own builtin-type tables, the way a front end registers extra
			// methods (the XGo configuration does it for string): what one package registers must stay
			// in that package, and registering must not touch anything another goroutine uses.
			lenFn := types.Universe.Lookup("len")
			for _, typ := range []types.Type{types.NewSlice(types.Typ[types.Int]), types.NewChan(types.SendRecv, types.Typ[types.Int]), types.Typ[types.String], types.NewSlice(types.Typ[types.String]), types.Typ[types.Float64]} {
				ti := d.Pkg.BuiltinTI(typ)
				if ti == nil {
					continue
				}
				ti.AddMethods(&gogen.BuiltinMethod{Name: "VerifLen", Fn: lenFn})
			}
		}})
	if !res.Accepted() {
		return "", res.ErrText()
	}
	return res.Output[""], ""
}

// c18LeakProbe: a method registered on a builtin type in one package must not exist in another.
func c18LeakProbe() (sig, msg string) {
	for _, typ := range []types.Type{types.NewSlice(types.Typ[types.Int]), types.NewChan(types.SendRecv, types.Typ[types.Int]), types.Typ[types.String], types.NewSlice(types.Typ[types.String]), types.Typ[types.Int]} {
		a := gogen.NewPackage("", "a", &gogen.Config{Importer: oracle.NewImporter()})
		if ti := a.BuiltinTI(typ); ti != nil {
			ti.AddMethods(&gogen.BuiltinMethod{Name: "VerifOnlyA", Fn: types.Universe.Lookup("len")})
		} else {
			continue
		}
		b := gogen.NewPackage("", "b", &gogen.Config{Importer: oracle.NewImporter()})
		found := func() (found bool) {
			defer func() {
				if e := recover(); e != nil {
					found = false // "no such member" is reported by panic or error
				}
			}()
			cb := b.NewFunc(nil, "f", nil, nil, false).BodyStart(b)
			cb.NewVar(typ, "x")
			kind, err := cb.VarVal("x").Member("VerifOnlyA", 0, gogen.MemberFlagVal)
			return err == nil && kind != gogen.MemberInvalid
		}()
		if found {
			return "builtin-method-leak", fmt.Sprintf("a method added to the builtin-type table of %v in package a is visible in package b", typ)
		}
	}
	return "", ""
}

func c18Run(c *c18Case) (sig, msg string) {
	if sig, msg := c18LeakProbe(); sig != "" {
		return sig, msg
	}
	n := len(c.Programs)
	seq := make([]string, n)
	seqErr := make([]string, n)
	for i, p := range c.Programs {
		seq[i], seqErr[i] = c18Build(p, c.XGo[i])
	}
	old := runtime.GOMAXPROCS(0)
	if c.Procs > 0 {
		runtime.GOMAXPROCS(c.Procs)
	}
	defer runtime.GOMAXPROCS(old)
	par := make([]string, n)
	parErr := make([]string, n)
	var wg sync.WaitGroup
	start := make(chan struct{})
	for i := range c.Programs {
		wg.Add(1)
		go func(i int) {
			defer wg.Done()
			<-start
			par[i], parErr[i] = c18Build(c.Programs[i], c.XGo[i])
		}(i)
	}
	close(start)
	wg.Wait()
	for i := range c.Programs {
		if seq[i] != par[i] || seqErr[i] != parErr[i] {
			a, b := firstDiff(seq[i], par[i])
			return "concurrent-output-differs", fmt.Sprintf("program %d: the concurrent build differs from the sequential build\n  sequential: %q %s\n  concurrent: %q %s", i, a, seqErr[i], b, parErr[i])
		}
	}
	return "", ""
}

func TestC18(t *testing.T) {
	r := hx.Start(t, "C18")
	r.SetRule("rounds of 16-48 different G-valid programs (generics, enumerator-free range forms, bool/nil identifiers, operator templates, unsafe-free builtins, composite literals in headers, default and XGo-builtin configuration mixed), each built on its own goroutine with its own FileSet, Package and importer instance, released together, under GOMAXPROCS 2..16; test binary built with -race. Oracle: no data race report (the runner scans the worker log) and every program's output byte-equal to its sequential build done before in the same process. Non-trivial: a round with >= 8 distinct programs built simultaneously; distinct by the set of sources.")
	r.Assume("the harness does not own the scheduler: races are found on the schedules that occur (the race detector reports a conflicting access pair whenever both accesses happen without synchronisation in the observed execution)")
	defer r.Done()
	if r.Replay != "" {
		var c c18Case
		if err := r.ReplayInput(&c); err != nil {
			t.Fatal(err)
		}
		r.Eval()
		if sig, msg := c18Run(&c); sig != "" {
			r.Report(&c, sig, "%s", msg)
		}
		return
	}
	avoid := knownAvoid("C18")
	r.Check(t, "concurrent-builds", r.N(24, 640), func(t *rapid.T) {
		n := rapid.IntRange(16, 48).Draw(t, "nprograms")
		c := &c18Case{Procs: rapid.IntRange(2, 16).Draw(t, "procs")}
		for i := 0; i < n; i++ {
			p := gen.GenProgram(t, gen.ProgOpts{Avoid: avoid, MaxStmts: 5, NFuncs: 2})
			c.Programs = append(c.Programs, p.Src)
			c.XGo = append(c.XGo, rapid.IntRange(0, 2).Draw(t, "xgo") == 0)
		}
		if dir := os.Getenv("VERIF_WORK"); dir != "" {
			data, _ := json.Marshal(c)
			os.WriteFile(filepath.Join(dir, fmt.Sprintf("current-%d.json", r.Shard)), data, 0o644)
		}
		sig, msg := c18Run(c)
		r.Eval()
		r.ClassN("programs-built-concurrently", int64(n))
		r.Class(fmt.Sprintf("gomaxprocs:%d", c.Procs))
		if sig != "" {
			r.Fail(t, c, sig, "%s", msg)
		}
		r.Nontrivial(fmt.Sprint(hx.Hash64(fmt.Sprint(c.Programs))))
		r.Sample(func() any {
			return map[string]any{"programs": n, "gomaxprocs": c.Procs, "first_program_bytes": len(c.Programs[0])}
		})
	})
}
