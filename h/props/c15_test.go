package props

import (
	"crypto/sha256"
	"encoding/json"
	"fmt"
	"go/ast"
	"go/parser"
	"go/token"
	"go/types"
	"os"
	"os/exec"
	"path/filepath"
	"sort"
	"strings"
	"testing"

	"pgregory.net/rapid"

	"verif/h/drive"
	"verif/h/hx"
	"verif/h/oracle"
)

// ---- C15: output is a deterministic function of the operation sequence -------------------------

const (
	xaPath = "example.com/verif/xa"
	xbPath = "example.com/verif/xb"
	xcPath = "example.com/verif/xc"
	// two XGo packages with the same package name: only the import path tells them apart
	xd1Path = "example.com/verif/d1/xd"
	xd2Path = "example.com/verif/d2/xd"
)

const xd1Src = `package xd

const XGoPackage = true

type TD1 struct{ V int }
`

const xd2Src = `package xd

const XGoPackage = true

type TD2 struct{ V int }
`

const xaSrc = `package xa

const XGoPackage = true

type TA struct{ V int }

func Make__0() TA          { return TA{} }
func Make__1(n int) TA     { return TA{n} }
func Make__2(s string) TA  { return TA{len(s)} }
func Join__0(a, b TA) TA   { return a }
func Join__1(a TA, n int) TA { return a }

func (t TA) Add__0(x int) TA    { return t }
func (t TA) Add__1(s string) TA { return t }
func (t TA) XGo_Add(u TA) TA    { return t }

const XGoo_Pick = "PickInt,PickStr"

func PickInt(x int) int       { return x }
func PickStr(s string) string { return s }
`

const xbSrc = `package xb

const XGoPackage = true

type TB struct{ S string }

func New__0() TB         { return TB{} }
func New__1(s string) TB { return TB{s} }

func (t *TB) Set__0(s string) {}
func (t *TB) Set__1(n int)    {}
`

const xcSrc = `package xc

import "example.com/verif/xa"

const XGoPackage = "example.com/verif/xa"

type TC struct{ A xa.TA }

func Wrap(a xa.TA) TC { return TC{a} }
`

// pl is a plain Go package (no XGoPackage marker) through which types of XGo packages can be reached
// without importing those packages.
const plPath = "example.com/verif/pl"

const plSrc = `package pl

import (
	"example.com/verif/xa"
	"example.com/verif/xb"
)

type A = xa.TA
type B = xb.TB

func GetA() xa.TA { var z xa.TA; return z }
`

// c15Interloper is an unrelated package that imports every synthetic XGo package directly; with a
// shared importer it is built between the builds of the case.
const c15Interloper = `package other

import (
	"example.com/verif/xa"
	"example.com/verif/xb"
	"example.com/verif/xc"
)

func Touch(a xa.TA, b xb.TB, c xc.TC) {}
`

func init() {
	oracle.RegisterSource(plPath, plSrc)
	oracle.RegisterSource(xaPath, xaSrc)
	oracle.RegisterSource(xbPath, xbSrc)
	oracle.RegisterSource(xcPath, xcSrc)
	oracle.RegisterSource(xd1Path, xd1Src)
	oracle.RegisterSource(xd2Path, xd2Src)
}

type c15Case struct {
	Files []string `json:"files"`
	// ViaPlain: an exported function whose result type is taken from the signature of pl.GetA (a
	// function of a plain Go package returning a type of the XGo package xa) is declared through the
	// API: the package mentions xa without ever importing it itself.
	ViaPlain bool `json:"via_plain,omitempty"`
}

// c15Build builds the package once; every statement that has a leading comment in the source gets
// that comment attached through SetComments.
func c15Build(c *c15Case, imp types.Importer) (map[string]string, string) {
	fset := token.NewFileSet()
	var files []*ast.File
	srcs := map[string][]byte{}
	var names []string
	comments := map[ast.Stmt]*ast.CommentGroup{}
	for i, s := range c.Files {
		name := fileName(i)
		f, err := parser.ParseFile(fset, name, s, parser.ParseComments|parser.SkipObjectResolution)
		if err != nil {
			return nil, "parse: " + err.Error()
		}
		cm := ast.NewCommentMap(fset, f, f.Comments)
		for n, groups := range cm {
			if st, ok := n.(ast.Stmt); ok && len(groups) > 0 && groups[0].End() < st.Pos() {
				// position-less, text beginning with a line break: the convention of the repository's tests
				cg := &ast.CommentGroup{}
				for k, cmt := range groups[0].List {
					text := cmt.Text
					if k == 0 {
						text = "\n" + text
					}
					cg.List = append(cg.List, &ast.Comment{Text: text})
				}
				comments[st] = cg
			}
		}
		files = append(files, f)
		srcs[name] = []byte(s)
		if i == 0 {
			names = append(names, "")
		} else {
			names = append(names, name)
		}
	}
	o := drive.Options{Importer: imp, PkgPath: "example.com/verif/foo", FileNames: names,
		Setup: func(d *drive.Driver) { d.StmtComments = comments }}
	if c.ViaPlain {
		o.Finish = func(d *drive.Driver) {
			sig := d.Pkg.Import(plPath).Ref("GetA").Type().(*types.Signature)
			d.Pkg.NewFunc(nil, "ViaPlain", nil, sig.Results(), false).BodyStart(d.Pkg).ZeroLit(sig.Results().At(0).Type()).Return(1).End()
		}
	}
	res := drive.Build(fset, files, srcs, o)
	if !res.Accepted() {
		return nil, res.ErrText()
	}
	return res.Output, ""
}

func outputsKey(out map[string]string) string {
	var names []string
	for n := range out {
		names = append(names, n)
	}
	sort.Strings(names)
	var b strings.Builder
	for _, n := range names {
		fmt.Fprintf(&b, "=== %q\n%s", n, out[n])
	}
	return b.String()
}

func c15Eval(c *c15Case, k int, children bool) (sig, msg string, first string) {
	first0, err0 := c15Build(c, oracle.NewImporter())
	if err0 != "" {
		return "", "", "ERR:" + err0
	}
	want := outputsKey(first0)
	// fresh importer per build
	for i := 1; i < k; i++ {
		out, e := c15Build(c, oracle.NewImporter())
		if got := outputsKey(out); e != "" || got != want {
			a, b := firstDiff(want, got)
			return "nondeterministic|fresh-importer", fmt.Sprintf("build %d of the same history differs from build 0 (fresh importer per build) %s\n  build 0: %q\n  build %d: %q", i, e, a, i, b), want
		}
	}
	// one importer shared by all builds, as a compiler driver has
	shared := oracle.NewImporter()
	for i := 0; i < k; i++ {
		if i == 1 {
			// another package of the same compilation, which imports the XGo packages directly
			c15Build(&c15Case{Files: []string{c15Interloper}}, shared)
		}
		out, e := c15Build(c, shared)
		if got := outputsKey(out); e != "" || got != want {
			a, b := firstDiff(want, got)
			return "nondeterministic|shared-importer", fmt.Sprintf("build %d with an importer shared across builds differs from a build with a fresh importer %s\n  fresh:  %q\n  shared: %q", i, e, a, b), want
		}
	}
	if children {
		sum := fmt.Sprintf("%x", sha256.Sum256([]byte(want)))
		dir := os.Getenv("VERIF_WORK")
		if dir == "" {
			dir = os.TempDir()
		}
		f, err := os.CreateTemp(dir, "c15-case-*.json")
		if err == nil {
			data, _ := json.Marshal(c)
			f.Write(data)
			f.Close()
			defer os.Remove(f.Name())
			for i := 0; i < 2; i++ {
				cmd := exec.Command(os.Args[0], "-test.run", "^TestC15Child$")
				cmd.Env = append(os.Environ(), "VERIF_C15_CASE="+f.Name(), "VERIF_OUT=", "VERIF_REPLAY=")
				outb, err := cmd.Output()
				got := ""
				for _, l := range strings.Split(string(outb), "\n") {
					if strings.HasPrefix(l, "C15SUM ") {
						got = strings.TrimPrefix(l, "C15SUM ")
					}
				}
				if err != nil || got == "" {
					continue // infrastructure, not a verdict
				}
				if got != sum {
					return "nondeterministic|across-processes", fmt.Sprintf("a build of the same history in another process produced different files (sha256 %s vs %s)", got, sum), want
				}
			}
		}
	}
	return "", "", want
}

// TestC15Child builds one case and prints the hash of its output (used for the cross-process clause).
func TestC15Child(t *testing.T) {
	fn := os.Getenv("VERIF_C15_CASE")
	if fn == "" {
		t.Skip()
	}
	data, err := os.ReadFile(fn)
	if err != nil {
		t.Fatal(err)
	}
	var c c15Case
	if err := json.Unmarshal(data, &c); err != nil {
		t.Fatal(err)
	}
	out, e := c15Build(&c, oracle.NewImporter())
	if e != "" {
		t.Fatal(e)
	}
	fmt.Printf("C15SUM %x\n", sha256.Sum256([]byte(outputsKey(out))))
}

type c15Gen struct {
	t     *rapid.T
	feats map[string]int
}

func (g *c15Gen) chance(label string, num, den int) bool {
	return rapid.IntRange(0, den-1).Draw(g.t, label) < num
}

// c15Program draws a multi-file non-main package that fills the unordered collections the builder
// keeps: imports per file, files, overload families of imported XGo packages, XGo dependency
// packages in exported signatures, commented statements.
func c15Program(t *rapid.T) (*c15Case, map[string]int) {
	g := &c15Gen{t: t, feats: map[string]int{}}
	nfiles := rapid.IntRange(1, 3).Draw(t, "nfiles")
	c := &c15Case{}
	fnSeq := 0
	// one case in six reaches XGo packages only through the plain package pl: no file imports them
	indirectOnly := g.chance("indirect-only", 1, 6)
	if indirectOnly {
		g.feats["xgo-packages-reached-only-through-plain-package"]++
		c.ViaPlain = true
	}
	for fi := 0; fi < nfiles; fi++ {
		var b strings.Builder
		b.WriteString("package foo\n\nimport (\n")
		imps := []string{}
		for _, p := range []string{"fmt", "strings", "strconv", "os", "sort", xaPath, xbPath, xcPath} {
			if g.chance("import", 2, 3) && !(indirectOnly && strings.HasPrefix(p, "example.com/")) {
				imps = append(imps, p)
			}
		}
		rapid.Permutation(imps) // imports in source order as drawn
		has := map[string]bool{}
		for _, p := range rapid.Permutation(imps).Draw(t, "importorder") {
			fmt.Fprintf(&b, "\t%q\n", p)
			has[p] = true
		}
		// the two same-named XGo packages need explicit names in Go source
		if g.chance("samename", 1, 2) && !indirectOnly {
			fmt.Fprintf(&b, "\txd1 %q\n\txd2 %q\n", xd1Path, xd2Path)
			has[xd1Path], has[xd2Path] = true, true
			g.feats["same-named-xgo-dependencies"]++
		}
		// blank imports (forced: they stay although nothing refers to them)
		nblank := 0
		for _, p := range rapid.Permutation([]string{"bytes", "errors", "io", "math", "time"}).Draw(t, "blankorder") {
			if nblank < 3 && g.chance("blank", 1, 3) {
				fmt.Fprintf(&b, "\t_ %q\n", p)
				nblank++
			}
		}
		if nblank >= 2 {
			g.feats["file-with->=2-blank-imports"]++
		}
		b.WriteString(")\n\n")
		if len(imps) >= 2 {
			g.feats["file-with->=2-imports"]++
		}
		// exported signatures mentioning XGo dependency packages
		var deps []string
		for _, p := range []struct{ path, typ string }{{xaPath, "xa.TA"}, {xbPath, "xb.TB"}, {xcPath, "xc.TC"}, {xd1Path, "xd1.TD1"}, {xd2Path, "xd2.TD2"}} {
			if has[p.path] && g.chance("export", 2, 3) {
				deps = append(deps, p.typ)
			}
		}
		if g.chance("indirect", 1, 3) || indirectOnly && fi == 0 {
			// types of XGo packages reached through aliases of a plain package: the XGo package itself
			// may not be imported by this package at all
			fmt.Fprintf(&b, "func Indirect%d(a pl.A, b pl.B) {}\n\n", fi)
			g.feats["exported-signature-reaches-xgo-package-through-plain-package"]++
			head := b.String()
			b.Reset()
			b.WriteString(strings.Replace(head, "import (\n", "import (\n\t\""+plPath+"\"\n", 1))
		}
		if len(deps) > 0 {
			fnSeq++
			var ps []string
			for i, d := range deps {
				ps = append(ps, fmt.Sprintf("p%d %s", i, d))
			}
			fmt.Fprintf(&b, "func Use%d(%s) {}\n\n", fnSeq, strings.Join(ps, ", "))
			g.feats[fmt.Sprintf("exported-signature-with-%d-xgo-deps", len(deps))]++
		}
		// bodies that reference imports, overloads, and carry commented statements
		nfn := rapid.IntRange(1, 3).Draw(t, "nfuncs")
		for k := 0; k < nfn; k++ {
			fnSeq++
			fmt.Fprintf(&b, "func body%d() {\n", fnSeq)
			ns := rapid.IntRange(1, 5).Draw(t, "nstmts")
			for s := 0; s < ns; s++ {
				if g.chance("comment", 1, 3) {
					fmt.Fprintf(&b, "\t// comment %d.%d\n", fnSeq, s)
					g.feats["commented-statement"]++
				}
				var cands []string
				if has["fmt"] {
					cands = append(cands, `fmt.Println("x")`)
				}
				if has["strings"] {
					cands = append(cands, `_ = strings.ToUpper("x")`)
				}
				if has["strconv"] {
					cands = append(cands, `_ = strconv.Itoa(1)`)
				}
				if has["os"] {
					cands = append(cands, `_ = os.Args`)
				}
				if has["sort"] {
					cands = append(cands, `sort.Ints(nil)`)
				}
				if has[xaPath] {
					cands = append(cands, `_ = xa.Make()`, `_ = xa.Make(1)`, `_ = xa.Make("s")`, `_ = xa.Join(xa.Make(), 2)`, `_ = xa.Make().Add(1)`, `_ = xa.Make().Add("s")`, `_ = xa.Pick(1)`, `_ = xa.Pick("s")`, `_ = xa.Make() + xa.Make(2)`)
					g.feats["overload-call"]++
				}
				if has[xbPath] {
					cands = append(cands, `_ = xb.New("s")`, `v := xb.New(); v.Set(1)`, `w := xb.New(); w.Set("s")`)
				}
				if has[xcPath] && has[xaPath] {
					cands = append(cands, `_ = xc.Wrap(xa.Make(3))`)
				}
				cands = append(cands, `_ = 1`)
				st := cands[rapid.IntRange(0, len(cands)-1).Draw(t, "stmt")]
				if strings.Contains(st, ";") {
					b.WriteString("\t{\n\t\t" + strings.ReplaceAll(st, "; ", "\n\t\t") + "\n\t}\n")
				} else {
					b.WriteString("\t" + st + "\n")
				}
			}
			b.WriteString("}\n\n")
		}
		c.Files = append(c.Files, b.String())
	}
	if nfiles >= 2 {
		g.feats[">=2-files"]++
	}
	return c, g.feats
}

func TestC15(t *testing.T) {
	r := hx.Start(t, "C15")
	r.SetRule("histories = generated multi-file non-main packages: 1-3 files, each importing a random subset (in random source order) of 5 standard and 3 synthetic XGo packages (overload families by suffix and by XGoo_ table, overloaded methods and an operator, one XGo package depending on another), exported functions whose signatures mention 0-3 XGo dependency packages (XGoPackage marker), bodies with overloaded calls and commented statements. Oracle: the same history built K times (8 quick / 24 thorough) with a fresh importer per build and K times with one importer shared by all builds, and (every 8th case) in two child processes: all files byte-identical. Non-trivial: >= 2 items in at least one unordered collection (imports of a file, files, XGo dependencies of the exported signatures, commented statements); distinct by source.")
	r.Assume("Go randomises every map iteration, so K in-process repetitions miss a two-way order dependence with probability 2^-(K-1)")
	defer r.Done()
	k := 8
	if !r.Quick() {
		k = 24
	}
	if r.Replay != "" {
		var c c15Case
		if err := r.ReplayInput(&c); err != nil {
			t.Fatal(err)
		}
		r.Eval()
		if sig, msg, _ := c15Eval(&c, 24, true); sig != "" {
			r.Report(&c, sig, "%s", msg)
		}
		return
	}
	if r.Shard == 0 {
		for _, f := range r.Findings() {
			var c c15Case
			if f.Replay == "" || r.LoadReplay(f, &c) != nil {
				continue
			}
			r.Eval()
			sig, msg, _ := c15Eval(&c, 24, false)
			switch {
			case sig == "":
			case f.Status == "known" && f.Match(sig):
				r.KnownLine(f)
			default:
				r.Report(&c, sig, "replay of %s finding %s: %s", f.Status, f.ID, msg)
			}
		}
	}
	count := 0
	r.Check(t, "deterministic-output", r.N(300, 10000), func(t *rapid.T) {
		c, feats := c15Program(t)
		count++
		sig, msg, first := c15Eval(c, k, count%8 == 0)
		r.Eval()
		if strings.HasPrefix(first, "ERR:") {
			r.Class("build-error:" + normMsg(first))
			return
		}
		if sig != "" {
			if f := r.MatchKnown(sig); f != nil {
				r.Known(f)
				return
			}
			r.Fail(t, c, sig, "%s", msg)
		}
		nontrivial := false
		for f, n := range feats {
			r.ClassN(f, int64(n))
			if strings.Contains(f, ">=2") || strings.Contains(f, "-2-xgo") || strings.Contains(f, "-3-xgo") || (f == "commented-statement" && n >= 2) {
				nontrivial = true
			}
		}
		if count%8 == 0 {
			r.Class("checked-across-processes")
		}
		if nontrivial {
			r.Nontrivial(strings.Join(c.Files, "\n---\n"))
		}
		r.Sample(func() any { return map[string]any{"files": c.Files, "output_of_build_0": first} })
	})
	_ = filepath.Join
}
