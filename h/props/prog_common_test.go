package props

import (
	"fmt"
	"go/ast"
	"go/parser"
	"go/token"
	"os"
	"regexp"
	"sort"
	"strings"

	"verif/h/drive"
	"verif/h/hx"
	"verif/h/oracle"
)

// progCase is the replayable form of a program-based case.
type progCase struct {
	Files []string `json:"files"`          // Go source text, one entry per file
	XGo   bool     `json:"xgo,omitempty"`  // XGo-builtin configuration
	Bare  bool     `json:"bare,omitempty"` // no NodeInterpreter, no recorder, no big-number types
	Note  string   `json:"note,omitempty"`
}

// progRun is everything one pipeline run produced.
type progRun struct {
	Case    *progCase
	Fset    *token.FileSet
	Files   []*ast.File
	Src     *oracle.Checked // O-src
	Res     *drive.Result
	Out     *oracle.Checked // O-types on the emitted files (nil if not accepted)
	SrcMap  map[string]string
	Failure string // parse failure of the *source* (generator problem)
	tracer  *typeTracer
}

func fileName(i int) string { return fmt.Sprintf("f%d.go", i) }

type runHooks struct {
	Setup func(d *drive.Driver, pr *progRun)
}

// runProgram parses and checks the source, drives the builder, and checks the output.
func runProgram(c *progCase, hooks *runHooks) *progRun { return runProgramOpts(c, hooks, nil) }

func runProgramOpts(c *progCase, hooks *runHooks, tweak func(o *drive.Options)) *progRun {
	pr := &progRun{Case: c, Fset: token.NewFileSet(), SrcMap: map[string]string{}}
	srcs := map[string][]byte{}
	var gnames []string
	for i, s := range c.Files {
		name := fileName(i)
		pr.SrcMap[name] = s
		srcs[name] = []byte(s)
		f, err := parser.ParseFile(pr.Fset, name, s, parser.SkipObjectResolution)
		if err != nil {
			pr.Failure = "source does not parse: " + err.Error()
			return pr
		}
		pr.Files = append(pr.Files, f)
		if i == 0 {
			gnames = append(gnames, "")
		} else {
			gnames = append(gnames, name)
		}
	}
	pr.Src = oracle.CheckParsed("main", pr.Fset, pr.Files, oracle.Importer())
	o := drive.Options{Importer: oracle.Importer(), XGo: c.XGo, PkgPath: "main", NoInterp: c.Bare}
	if c.XGo {
		o.Importer = oracle.NewImporter() // the XGo builtin package is initialised (mutated) on import
	}
	if len(c.Files) > 1 {
		o.FileNames = gnames
	}
	if hooks != nil && hooks.Setup != nil {
		o.Setup = func(d *drive.Driver) { hooks.Setup(d, pr) }
	}
	if tweak != nil {
		tweak(&o)
	}
	pr.Res = drive.Build(pr.Fset, pr.Files, srcs, o)
	if pr.Res.Accepted() {
		out := map[string]string{}
		for n, s := range pr.Res.Output {
			if n == "" {
				n = "_default.go"
			}
			out[n] = s
		}
		pr.Out = oracle.CheckSources("main", out, oracle.Importer())
	}
	return pr
}

var posPrefix = regexp.MustCompile(`(^|[ \t(])[A-Za-z0-9_./-]*\.go:\d+(:\d+)?:? ?`)
var identish = regexp.MustCompile(`\b(x|p|g|v|k|i|y|c|f|fn|L|G|LT|ok)\d+\b`)
var numbers = regexp.MustCompile(`\b\d+\b`)

// normMsg strips positions, generated identifiers and numbers from a diagnostic so that it can be
// used as a discrepancy signature.
func normMsg(s string) string {
	if i := strings.Index(s, "\n"); i >= 0 {
		s = s[:i]
	}
	s = posPrefix.ReplaceAllString(s, "$1")
	s = identish.ReplaceAllString(s, "ID")
	s = numbers.ReplaceAllString(s, "N")
	if len(s) > 160 {
		s = s[:160]
	}
	return strings.TrimSpace(s)
}

// stmtAt returns the source line the driver was translating when the builder panicked.
func (pr *progRun) stmtAt() string {
	if pr.Res == nil || pr.Res.At == nil {
		return ""
	}
	p := pr.Fset.Position(pr.Res.At.Pos())
	lines := strings.Split(pr.SrcMap[p.Filename], "\n")
	if p.Line >= 1 && p.Line <= len(lines) {
		return strings.TrimSpace(lines[p.Line-1])
	}
	return ""
}

func featKeys(m map[string]int) []string {
	var ks []string
	for k := range m {
		ks = append(ks, k)
	}
	sort.Strings(ks)
	return ks
}

// replayFindings runs the replay of every listed finding of this property through eval, which
// returns the discrepancy signatures the case produces ("" = none). For a known finding the
// signature must match its matcher (then the KNOWN-FINDING line is printed); a fixed finding must
// produce no discrepancy. Anything else is a violation.
func replayFindings(r *hx.Run, eval func(c *progCase) (sig, msg string)) {
	for _, f := range r.Findings() {
		if f.Replay == "" {
			continue
		}
		var c progCase
		if err := r.LoadReplay(f, &c); err != nil {
			r.Note("cannot load replay of %s: %v", f.ID, err)
			continue
		}
		r.Eval()
		sig, msg := eval(&c)
		switch {
		case sig == "":
			if f.Status == "known" {
				r.Note("known finding %s no longer reproduces (replay passes)", f.ID)
			}
		case f.Status == "known" && f.Match(sig):
			r.KnownLine(f)
		case f.Status == "fixed" && (r.MatchKnown(sig) != nil || r.MatchKnownOf("C03", sig) != nil):
			// the repaired defect is gone; what remains at this input is a different, listed finding
		default:
			r.Report(&c, sig, "replay of %s finding %s: %s", f.Status, f.ID, msg)
		}
	}
}

func os_collect() bool { return os.Getenv("VERIF_COLLECT") != "" }
