package props

import (
	"fmt"
	"go/ast"
	"go/parser"
	"go/token"
	"go/types"
	"sort"
	"strings"
	"testing"

	"github.com/goplus/gogen"

	"verif/h/hx"
	"verif/h/oracle"
)

// ---- C05: assignability, comparability and convertibility verdicts match the Go spec ----------

const c05Prelude = `package main

import "unsafe"

type (
	N   int
	N8  int8
	U8  uint8
	F   float64
	F32 float32
	C   complex128
	Str string
	B   bool
	A   = int
	AS  = []int
	NS  []int
	NM  map[string]int
	NC  chan int
	Fn  func(int) int
	S   struct{ a int }
	S2  struct{ a int }
	NP  *int
	I   interface{ M() }
	J   interface {
		M()
		N()
	}
	E interface{ Error() string }
	G[T any] struct{ x T }
)

func (S) M()   {}
func (*S2) M() {}
func (N) M()   {}
func (N) N()   {}

var _ unsafe.Pointer
`

var c05TypeExprs = []string{
	"bool", "int", "int8", "int16", "int32", "int64", "uint", "uint8", "uint16", "uint32", "uint64", "uintptr",
	"float32", "float64", "complex64", "complex128", "string", "unsafe.Pointer",
	"N", "N8", "U8", "F", "F32", "C", "Str", "B", "A", "AS", "NS", "NM", "NC", "Fn", "S", "S2", "NP", "I", "J", "E", "G[int]", "G[N]",
	"*int", "*N", "*S", "*S2", "*G[int]", "[]int", "[]N", "[]byte", "[]string", "[]rune", "[3]int", "[3]N", "[4]int", "map[string]int", "map[N]int",
	"chan int", "<-chan int", "chan<- int", "chan N", "func()", "func(int) int", "func(N) int", "struct{ a int }", "struct{ a N }", "struct{}",
	"any", "error", "interface{ M() }", "[]any", "*[3]int",
}

var c05Untyped = []types.BasicKind{types.UntypedBool, types.UntypedInt, types.UntypedRune, types.UntypedFloat, types.UntypedComplex, types.UntypedString, types.UntypedNil}

// c05Consts: literal text of constants used at representability boundaries.
var c05Consts = []string{
	"0", "1", "-1", "127", "128", "-128", "-129", "255", "256", "32767", "32768", "-32769", "65535", "65536", "2147483647", "2147483648", "-2147483648", "-2147483649",
	"4294967295", "4294967296", "9223372036854775807", "9223372036854775808", "-9223372036854775808", "-9223372036854775809", "18446744073709551615", "18446744073709551616", "1 << 70",
	"1.0", "1.5", "-0.5", "3.4e38", "3.5e38", "1e39", "1.7e308", "1e400", "2.0", "1e2", "'a'", "'\\U0010FFFF'", `"s"`, `""`, "true", "false", "nil", "2i", "0i", "1 + 0i", "1.5 + 0i",
}

type c05World struct {
	src     string
	checked *oracle.Checked
	pkg     *gogen.Package
	typs    []types.Type // universe (typed)
	names   []string
}

func newC05World(t *testing.T) *c05World {
	var b strings.Builder
	b.WriteString(c05Prelude)
	for i, e := range c05TypeExprs {
		fmt.Fprintf(&b, "var v%d %s\n", i, e)
	}
	w := &c05World{src: b.String()}
	w.checked = oracle.CheckSources("main", map[string]string{"u.go": w.src}, oracle.Importer())
	if !w.checked.OK() {
		t.Fatalf("C05 universe does not type-check: %s", w.checked.ErrText(3))
	}
	for i, e := range c05TypeExprs {
		w.typs = append(w.typs, w.checked.Pkg.Scope().Lookup(fmt.Sprintf("v%d", i)).Type())
		w.names = append(w.names, e)
	}
	for _, k := range c05Untyped {
		w.typs = append(w.typs, types.Typ[k])
		w.names = append(w.names, types.Typ[k].Name())
	}
	// the builder works on the very same package object, so types are shared by pointer
	w.pkg = gogen.NewPackage("main", "main", &gogen.Config{Importer: oracle.Importer(), Types: w.checked.Pkg})
	return w
}

// batch type-checks one statement per case inside the universe package and returns which lines failed.
func (w *c05World) batch(stmts []string) []string {
	var b strings.Builder
	b.WriteString("package main\n\nimport \"unsafe\"\n\nfunc _() { // uses unsafe.Pointer\n")
	for _, s := range stmts {
		b.WriteString("\t" + s + "\n")
	}
	b.WriteString("}\n")
	fset := token.NewFileSet()
	f1, err := parser.ParseFile(fset, "u.go", w.src, parser.SkipObjectResolution)
	if err != nil {
		panic(err)
	}
	f2, err := parser.ParseFile(fset, "b.go", b.String(), parser.SkipObjectResolution)
	if err != nil {
		panic(fmt.Sprintf("batch does not parse: %v\n%s", err, b.String()))
	}
	errs := make([]string, len(stmts))
	conf := types.Config{Importer: oracle.Importer(), Error: func(err error) {
		te, ok := err.(types.Error)
		if !ok || oracle.IsUnusedErr(te.Msg) {
			return
		}
		p := fset.Position(te.Pos)
		if p.Filename == "b.go" && p.Line-6 >= 0 && p.Line-6 < len(stmts) && errs[p.Line-6] == "" {
			errs[p.Line-6] = te.Msg
		}
	}}
	conf.Check("main", fset, []*ast.File{f1, f2}, nil)
	return errs
}

func c05Guard(f func() bool) (res bool, panicked string) {
	defer func() {
		if e := recover(); e != nil {
			panicked = fmt.Sprint(e)
		}
	}()
	return f(), ""
}

func typeClass(t types.Type) string {
	switch u := t.(type) {
	case *types.Basic:
		if u.Info()&types.IsUntyped != 0 {
			return "untyped"
		}
		return "basic"
	case *types.Named:
		return "named-" + typeClass(u.Underlying())
	case *types.Alias:
		return "alias-" + typeClass(types.Unalias(u))
	case *types.Interface:
		return "interface"
	}
	return strings.TrimPrefix(fmt.Sprintf("%T", t), "*types.")
}

func TestC05(t *testing.T) {
	r := hx.Start(t, "C05")
	r.SetRule("closed universe of 70 typed types (every basic kind, unsafe.Pointer, named/alias/pointer/slice/array/map/chan/func/struct/interface/generic-instance forms) plus the 7 untyped kinds: ALL ordered pairs are enumerated for AssignableTo, AssignableConv, ConvertibleTo and ComparableTo (both argument orders; symmetry is a law of its own), and ALL (target type x 48 boundary constants) points for constant assignability/convertibility/comparability; then the same verdicts through each construct (var init, assignment, call argument, return, slice/array/map/struct literal element, case clause, send) on a sample. Oracle: types.AssignableTo / ConvertibleTo and go/types on one-statement programs (`var _ T = c`, `_ = v == w`, `_ = T(c)`) batched per file. Non-trivial: the oracle's verdict is 'no', or the point involves a constant; distinct by (question, V, T, constant).")
	r.Assume("go/types is the oracle", "untyped operands are always given together with their constant value")
	r.SetExhaustive(true)
	defer r.Done()
	if r.Replay != "" {
		r.Note("C05 enumerates a closed grid; a replay file names grid points and is re-evaluated by the enumeration itself")
	}
	w := newC05World(t)
	c05Constructs(t, r, w)
	if r.Shard != 0 {
		return // the predicate grid is small: shard 0 enumerates all of it
	}
	pkg := w.pkg
	n := len(w.typs)
	type disc struct{ sig, msg string }
	var discs []disc
	report := func(q, v, tt, c string, goV, ggV bool, extra string) {
		sig := fmt.Sprintf("%s|V=%s|T=%s|c=%s|go=%v|gogen=%v%s", q, v, tt, c, goV, ggV, extra)
		discs = append(discs, disc{sig, fmt.Sprintf("%s: V=%s T=%s const=%s: go/types says %v, the builder says %v%s", q, v, tt, c, goV, ggV, extra)})
	}
	isUntyped := func(t types.Type) bool {
		b, ok := t.(*types.Basic)
		return ok && b.Info()&types.IsUntyped != 0
	}
	// ---- typed x typed pairs: assignable, convertible -------------------------------------
	for i := 0; i < n; i++ {
		for j := 0; j < n; j++ {
			V, T := w.typs[i], w.typs[j]
			if isUntyped(V) || isUntyped(T) {
				continue // untyped operands are covered with constants below
			}
			r.Eval()
			goA := types.AssignableTo(V, T)
			ggA, p1 := c05Guard(func() bool { return gogen.AssignableTo(pkg, V, T) })
			ggAC, p2 := c05Guard(func() bool { return gogen.AssignableConv(pkg, V, T, &gogen.Element{Type: V, Val: ast.NewIdent("v")}) })
			if p1 != "" || p2 != "" {
				report("assignable", w.names[i], w.names[j], "-", goA, false, "|panic="+normMsg(p1+p2))
			} else if goA != ggA || goA != ggAC {
				report("assignable", w.names[i], w.names[j], "-", goA, ggA && ggAC, "")
			}
			goC := types.ConvertibleTo(V, T)
			ggC, p3 := c05Guard(func() bool { return gogen.ConvertibleTo(pkg, V, T) })
			if p3 != "" {
				report("convertible", w.names[i], w.names[j], "-", goC, false, "|panic="+normMsg(p3))
			} else if goC != ggC {
				report("convertible", w.names[i], w.names[j], "-", goC, ggC, "")
			}
			if !goA || !goC {
				r.Nontrivial(fmt.Sprintf("pair|%d|%d", i, j))
			}
		}
	}
	// ---- comparability of typed pairs (oracle: programs) ------------------------------------
	var stmts []string
	var idx [][2]int
	for i := 0; i < n; i++ {
		for j := 0; j < n; j++ {
			if isUntyped(w.typs[i]) || isUntyped(w.typs[j]) {
				continue
			}
			stmts = append(stmts, fmt.Sprintf("_ = v%d == v%d", i, j))
			idx = append(idx, [2]int{i, j})
		}
	}
	errs := w.batch(stmts)
	cmp := map[[2]int]bool{}
	for k, e := range errs {
		i, j := idx[k][0], idx[k][1]
		goV := e == ""
		r.Eval()
		ggV, p := c05Guard(func() bool {
			return gogen.ComparableTo(pkg, &gogen.Element{Type: w.typs[i], Val: ast.NewIdent("v")}, &gogen.Element{Type: w.typs[j], Val: ast.NewIdent("w")})
		})
		cmp[[2]int{i, j}] = ggV
		if p != "" {
			report("comparable", w.names[i], w.names[j], "-", goV, false, "|panic="+normMsg(p))
		} else if goV != ggV {
			report("comparable", w.names[i], w.names[j], "-", goV, ggV, "")
		}
		if !goV {
			r.Nontrivial(fmt.Sprintf("cmp|%d|%d", i, j))
		}
	}
	for k := range cmp {
		if k[0] < k[1] && cmp[k] != cmp[[2]int{k[1], k[0]}] {
			discs = append(discs, disc{fmt.Sprintf("comparable-asymmetric|%s|%s", w.names[k[0]], w.names[k[1]]),
				fmt.Sprintf("ComparableTo is not symmetric: (%s, %s) = %v but (%s, %s) = %v", w.names[k[0]], w.names[k[1]], cmp[k], w.names[k[1]], w.names[k[0]], !cmp[k])})
		}
	}
	// ---- constants x targets ----------------------------------------------------------------
	type cpoint struct {
		ti int
		c  string
		tv types.TypeAndValue
	}
	var cps []cpoint
	stmts = stmts[:0]
	var cstmts [3][]string
	for ti := 0; ti < n; ti++ {
		if isUntyped(w.typs[ti]) {
			continue
		}
		for _, c := range c05Consts {
			info := &types.Info{Types: map[ast.Expr]types.TypeAndValue{}}
			ce, _ := parser.ParseExpr(c)
			if err := types.CheckExpr(token.NewFileSet(), w.checked.Pkg, token.NoPos, ce, info); err != nil {
				continue
			}
			cps = append(cps, cpoint{ti, c, info.Types[ce]})
			cstmts[0] = append(cstmts[0], fmt.Sprintf("var _ %s = %s", c05TypeExprs[ti], c))
			cstmts[1] = append(cstmts[1], fmt.Sprintf("_ = (%s)(%s)", c05TypeExprs[ti], c))
			cstmts[2] = append(cstmts[2], fmt.Sprintf("_ = v%d == %s", ti, c))
		}
	}
	var cerrs [3][]string
	for q := 0; q < 3; q++ {
		cerrs[q] = w.batch(cstmts[q])
	}
	for k, cp := range cps {
		T := w.typs[cp.ti]
		mk := func() *gogen.Element {
			lit, _ := parser.ParseExpr(cp.c)
			return &gogen.Element{Type: cp.tv.Type, CVal: cp.tv.Value, Val: lit}
		}
		r.EvalN(4)
		r.Nontrivial(fmt.Sprintf("const|%d|%s", cp.ti, cp.c))
		goA := cerrs[0][k] == ""
		ggA, p := c05Guard(func() bool { return gogen.AssignableConv(pkg, cp.tv.Type, T, mk()) })
		if p != "" {
			report("assignable-const", cp.tv.Type.String(), w.names[cp.ti], cp.c, goA, false, "|panic="+normMsg(p))
		} else if goA != ggA {
			report("assignable-const", cp.tv.Type.String(), w.names[cp.ti], cp.c, goA, ggA, "")
		}
		goCmp := cerrs[2][k] == ""
		ggC1, p1 := c05Guard(func() bool {
			return gogen.ComparableTo(pkg, &gogen.Element{Type: T, Val: ast.NewIdent("v")}, mk())
		})
		ggC2, p2 := c05Guard(func() bool {
			return gogen.ComparableTo(pkg, mk(), &gogen.Element{Type: T, Val: ast.NewIdent("v")})
		})
		switch {
		case p1 != "" || p2 != "":
			report("comparable-const", cp.tv.Type.String(), w.names[cp.ti], cp.c, goCmp, false, "|panic="+normMsg(p1+p2))
		case ggC1 != ggC2:
			discs = append(discs, disc{fmt.Sprintf("comparable-asymmetric|%s|%s|c=%s", w.names[cp.ti], cp.tv.Type, cp.c),
				fmt.Sprintf("ComparableTo is not symmetric for %s and the constant %s: %v vs %v", w.names[cp.ti], cp.c, ggC1, ggC2)})
		case goCmp != ggC1:
			report("comparable-const", cp.tv.Type.String(), w.names[cp.ti], cp.c, goCmp, ggC1, "")
		}
	}
	// ---- Default ------------------------------------------------------------------------------
	for _, k := range c05Untyped {
		r.Eval()
		if got, want := gogen.Default(pkg, types.Typ[k]), types.Default(types.Typ[k]); !types.Identical(got, want) {
			report("default", types.Typ[k].Name(), "-", "-", true, false, fmt.Sprintf("|got=%v|want=%v", got, want))
		}
	}
	// ---- report ---------------------------------------------------------------------------------
	sort.Slice(discs, func(i, j int) bool { return discs[i].sig < discs[j].sig })
	unknown := 0
	for _, d := range discs {
		if f := r.MatchKnown(d.sig); f != nil {
			r.Known(f)
			r.KnownLine(f)
			continue
		}
		unknown++
		if os_collect() {
			r.Class("SIG:" + d.sig)
			continue
		}
		if unknown <= 15 {
			r.Report(map[string]string{"point": d.sig}, d.sig, "%s", d.msg)
		}
	}
	r.ClassN("discrepancies-total", int64(len(discs)))
	r.ClassN("discrepancies-unlisted", int64(unknown))
	r.Extra("universe_types", n)
	r.Extra("constants", len(c05Consts))
	r.Sample(func() any {
		return map[string]any{"question": "assignable", "V": w.names[1], "T": w.names[18], "oracle": types.AssignableTo(w.typs[1], w.typs[18])}
	})
	r.Sample(func() any {
		return map[string]any{"question": "assignable-const", "T": "int8", "const": "128", "oracle": false}
	})
	r.Sample(func() any {
		return map[string]any{"question": "comparable", "V": w.names[33], "T": w.names[35], "oracle_stmt": "_ = v33 == v35"}
	})
}

// c05Constructs asks the same question through each construct: a one-statement program per
// (construct, V, T) grid point, verdict of go/types on the source vs verdict of the builder.
var c05ConstructTmpl = []struct{ name, stmt string }{
	{"var-init", "var x $T = $E; _ = x"},
	{"assign", "var x $T; x = $E; _ = x"},
	{"call-arg", "func(p $T) {}($E)"},
	{"return", "_ = func() $T { return $E }"},
	{"slice-elem", "_ = []$T{$E}"},
	{"array-elem", "_ = [2]$T{1: $E}"},
	{"map-value", "_ = map[string]$T{\"k\": $E}"},
	{"struct-field", "_ = struct{ f $T }{$E}"},
	{"struct-keyed", "_ = struct{ f $T }{f: $E}"},
	{"send", "var ch chan $T; ch <- $E"},
	{"case", "var x $T; switch x { case $E: }"},
	{"compare", "var x $T; _ = x == $E"},
	{"convert", "_ = ($T)($E)"},
}

func c05Constructs(t *testing.T, r *hx.Run, w *c05World) {
	type point struct {
		ci, vi, ti int
		e          string
	}
	var pts []point
	nTyped := len(c05TypeExprs)
	for ci := range c05ConstructTmpl {
		for vi := 0; vi < nTyped; vi++ {
			for ti := 0; ti < nTyped; ti++ {
				pts = append(pts, point{ci, vi, ti, fmt.Sprintf("v%d", vi)})
			}
		}
		for ti := 0; ti < nTyped; ti++ {
			for k, c := range c05Consts {
				pts = append(pts, point{ci, -1 - k, ti, c})
			}
		}
	}
	stride := 1
	if r.Quick() {
		stride = 7 // a different residue class per seed
	}
	checked := 0
	var discs []string
	msgs := map[string]string{}
	for k := r.Shard + r.NShards*int(r.Seed%uint64(stride)); k < len(pts); k += r.NShards * stride {
		p := pts[k]
		stmt := strings.ReplaceAll(strings.ReplaceAll(c05ConstructTmpl[p.ci].stmt, "$T", c05TypeExprs[p.ti]), "$E", p.e)
		src := w.src + "\nfunc f() {\n\t" + stmt + "\n}\n"
		pr := runProgram(&progCase{Files: []string{src}}, nil)
		r.Eval()
		checked++
		if pr.Failure != "" || pr.Res.PanicKind == "unsupported" {
			r.Class("construct-skipped")
			continue
		}
		goOK := pr.Src.OK()
		ggOK := pr.Res.Accepted()
		vname := p.e
		if p.vi >= 0 {
			vname = c05TypeExprs[p.vi]
		}
		if !goOK {
			r.Nontrivial(fmt.Sprintf("construct|%d|%s|%d", p.ci, vname, p.ti))
		}
		extra := ""
		if pr.Res.PanicKind == "runtime" || pr.Res.PanicKind == "other" {
			extra = "|fault"
		}
		if goOK != ggOK || extra != "" {
			sig := fmt.Sprintf("construct:%s|V=%s|T=%s|go=%v|gogen=%v%s", c05ConstructTmpl[p.ci].name, vname, c05TypeExprs[p.ti], goOK, ggOK, extra)
			discs = append(discs, sig)
			msgs[sig] = fmt.Sprintf("%s with V=%s T=%s: go/types %v (%s), builder %v (%s)", c05ConstructTmpl[p.ci].name, vname, c05TypeExprs[p.ti], goOK, pr.Src.ErrText(1), ggOK, pr.Res.ErrText())
		}
		r.Class("construct:" + c05ConstructTmpl[p.ci].name)
	}
	unknown := 0
	for _, sig := range discs {
		if f := r.MatchKnown(sig); f != nil {
			r.Known(f)
			r.KnownLine(f)
			continue
		}
		unknown++
		if os_collect() {
			r.Class("SIG:" + sig)
			continue
		}
		if unknown <= 10 {
			r.Report(map[string]string{"point": sig}, sig, "%s", msgs[sig])
		}
	}
	r.ClassN("construct-points-checked", int64(checked))
	r.Extra("construct_grid_size", len(pts))
	if stride != 1 {
		r.SetExhaustive(false)
	}
}
