package props

import (
	"fmt"
	"regexp"
	"sort"
	"strings"
	"testing"

	"pgregory.net/rapid"

	"verif/h/gen"
	"verif/h/hx"
)

// ---- C10: missing-return and label diagnostics coincide with Go's rules ------------------------

var (
	goMissingRet = regexp.MustCompile(`^missing return$`)
	goUnusedLbl  = regexp.MustCompile(`^label (\w+) declared and not used$`)
	goDupLbl     = regexp.MustCompile(`^label (\w+) already declared`)
	ggMissingRet = regexp.MustCompile(`missing return`)
	ggUnusedLbl  = regexp.MustCompile(`label (\w+) defined and not used`)
	ggDupLbl     = regexp.MustCompile(`label (\w+) already defined`)
)

// c10Diags reduces messages to the sorted multiset of the three diagnostic kinds; other holds the rest.
func c10Diags(msgs []string, missing, unused, dup *regexp.Regexp) (diags []string, other []string) {
	for _, m := range msgs {
		if i := strings.Index(m, "\n"); i >= 0 {
			m = m[:i]
		}
		m = strings.TrimSpace(posPrefix.ReplaceAllString(m, "$1"))
		switch {
		case strings.HasPrefix(m, "other declaration of"): // continuation line of "already declared"
		case missing.MatchString(m):
			diags = append(diags, "missing-return")
		case unused.MatchString(m):
			diags = append(diags, "unused-label:"+unused.FindStringSubmatch(m)[1])
		case dup.MatchString(m):
			diags = append(diags, "duplicate-label:"+dup.FindStringSubmatch(m)[1])
		default:
			other = append(other, m)
		}
	}
	sort.Strings(diags)
	return
}

func c10Eval(c *progCase) (sig, msg string, want []string, cls string) {
	pr := runProgram(c, nil)
	if pr.Failure != "" {
		return "", "", nil, "unparsable"
	}
	var goMsgs []string
	for _, e := range pr.Src.HardErrs() {
		goMsgs = append(goMsgs, e.Msg)
	}
	want, goOther := c10Diags(goMsgs, goMissingRet, goUnusedLbl, goDupLbl)
	if len(goOther) > 0 {
		return "", "", nil, "generator_unsound:" + normMsg(goOther[0])
	}
	if pr.Res.PanicKind == "unsupported" {
		return "", "", nil, "unsupported"
	}
	var ggMsgs []string
	for _, e := range pr.Res.Errs {
		ggMsgs = append(ggMsgs, e.Error())
	}
	if pr.Res.Panic != nil {
		ggMsgs = append(ggMsgs, fmt.Sprint(pr.Res.Panic))
	}
	got, ggOther := c10Diags(ggMsgs, ggMissingRet, ggUnusedLbl, ggDupLbl)
	// which definition a goto/break refers to is not defined for a label that is declared twice, so
	// "used" is only compared for labels that are declared once
	dupNames := map[string]bool{}
	for _, d := range want {
		if strings.HasPrefix(d, "duplicate-label:") {
			dupNames[strings.TrimPrefix(d, "duplicate-label:")] = true
		}
	}
	dropAmbiguous := func(ds []string) []string {
		if len(dupNames) == 0 {
			return ds
		}
		// a body with a label declared twice is rejected either way; which statement the label
		// binds to (and so the termination analysis and the use of the label) is not defined
		var out []string
		for _, d := range ds {
			if strings.HasPrefix(d, "duplicate-label:") {
				out = append(out, d)
			}
		}
		return out
	}
	want, got = dropAmbiguous(want), dropAmbiguous(got)
	if strings.Join(want, ",") != strings.Join(got, ",") {
		kind := "diagnostic-mismatch"
		return fmt.Sprintf("%s|go=%v|gogen=%v", kind, labelsGeneric(want), labelsGeneric(got)),
			fmt.Sprintf("Go's diagnostics: %v\nbuilder's diagnostics: %v (other builder messages: %v)", want, got, ggOther), want, "compared"
	}
	if len(ggOther) > 0 {
		return "", "", want, "other-builder-error(not C10):" + normMsg(ggOther[0])
	}
	return "", "", want, "compared"
}

var labelName = regexp.MustCompile(`label:\w+`)

func labelsGeneric(d []string) []string {
	out := make([]string, len(d))
	for i, s := range d {
		out[i] = labelName.ReplaceAllString(s, "label")
	}
	return out
}

func TestC10(t *testing.T) {
	r := hx.Start(t, "C10")
	r.SetRule("function bodies from a control-flow grammar (return, builtin and shadowed panic, goto to labels of the same or an enclosing block, labels from a 3-name pool on arbitrary statements, break/continue with and without labels, if/else chains, the three for forms, range, switch with/without default and fallthrough, type switch, select, blocks, closures with their own label space and result lists), nested to depth 6, with and without results; bodies are confirmed by go/types to contain no other error than the three kinds. Oracle: the multiset {missing return, label X unused, label X duplicate} of go/types equals the multiset the builder delivers. Non-trivial: the body contains a labelled break/continue, a goto, a shadowed panic call, a for-ever loop, a switch default or a select; distinct by source.")
	r.Assume("go/types implements the Go specification's terminating-statement and label rules", "labels are declared once per definition in source order before the body is translated (forward gotos)")
	defer r.Done()
	eval := func(c *progCase) (string, string) {
		sig, msg, _, _ := c10Eval(c)
		return sig, msg
	}
	if r.Replay != "" {
		var c progCase
		if err := r.ReplayInput(&c); err != nil {
			t.Fatal(err)
		}
		r.Eval()
		if sig, msg := eval(&c); sig != "" {
			r.Report(&c, sig, "%s", msg)
		}
		return
	}
	if r.Shard == 0 {
		replayFindings(r, eval)
	}
	r.Check(t, "flow-diagnostics", r.N(6000, 300000), func(t *rapid.T) {
		src, feats := gen.FlowProgram(t)
		c := &progCase{Files: []string{src}}
		sig, msg, want, cls := c10Eval(c)
		r.Eval()
		r.Class("outcome:" + cls)
		if cls != "compared" && !strings.HasPrefix(cls, "other-builder-error") {
			return
		}
		if sig != "" {
			if f := r.MatchKnown(sig); f != nil {
				r.Known(f)
				return
			}
			r.Fail(t, c, sig, "%s", msg)
		}
		if len(want) == 0 {
			r.Class("expected:no-diagnostic")
		}
		hasDup := false
		for _, d := range want {
			hasDup = hasDup || strings.HasPrefix(d, "duplicate-label")
		}
		if hasDup {
			r.Class("body-with-duplicate-label(only duplicates compared)")
		} else {
			r.Class("body-without-duplicate-label(all three kinds compared)")
		}
		for _, d := range labelsGeneric(want) {
			r.Class("expected:" + d)
		}
		if feats["labeled-break"]+feats["labeled-continue"]+feats["goto"]+feats["shadowed-panic-call"]+feats["for-ever"]+feats["switch-default"]+feats["select"] > 0 {
			r.Nontrivial(src)
		}
		for f := range feats {
			r.Class("feat:" + f)
		}
		r.Sample(func() any { return map[string]any{"expected": want, "source": src[strings.Index(src, "func f"):]} })
	})
}
