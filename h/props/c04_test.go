package props

import (
	"bytes"
	"fmt"
	"go/token"
	"go/types"
	"sort"
	"strings"
	"testing"

	"github.com/goplus/gogen"
	"pgregory.net/rapid"

	"verif/h/drive"
	"verif/h/gen"
	"verif/h/hx"
	"verif/h/oracle"
)

// ---- C04: folded constant values are exactly Go's constant values ------------------------------

func c04Eval(c *progCase) (sig, msg string, cls string, tt *typeTracer) {
	td, tt, pr := c03Eval(c, true)
	if pr.Failure != "" {
		return "", "", "unparsable", tt
	}
	if pr.Res.PanicKind == "unsupported" {
		return "", "", "unsupported", tt
	}
	if pr.Res.PanicKind == "runtime" || pr.Res.PanicKind == "other" {
		return "", "", "runtime-fault(C17)", tt
	}
	goOK := pr.Src.OK()
	if !goOK {
		if pr.Res.Accepted() {
			m := pr.Src.ErrText(1)
			return "accepts-invalid-const|" + oracle.MsgClass(m), fmt.Sprintf("go/types rejects the constant expression (%s) but the builder accepted it and folded it", m), "go-rejects", tt
		}
		return "", "", "go-rejects", tt
	}
	if td != nil {
		if td.Kind == "type-mismatch" || td.Kind == "decl-type" {
			return td.sig(), td.String(), "go-accepts", tt
		}
		return td.Kind + "|" + td.Site, td.String(), "go-accepts", tt
	}
	if !pr.Res.Accepted() {
		return "rejects-valid-const|" + normMsg(pr.Res.ErrText()), fmt.Sprintf("valid constant expression rejected: %s\n  at: %s", pr.Res.ErrText(), pr.stmtAt()), "go-accepts", tt
	}
	// declared constants and array lengths
	gs := pr.Res.Pkg.Types.Scope()
	names := pr.Src.Pkg.Scope().Names()
	sort.Strings(names)
	for _, name := range names {
		obj := pr.Src.Pkg.Scope().Lookup(name)
		gobj := gs.Lookup(name)
		if gobj == nil {
			continue
		}
		switch o := obj.(type) {
		case *types.Const:
			gc, ok := gobj.(*types.Const)
			if !ok {
				return "const-decl-kind|" + name, fmt.Sprintf("%s is a constant for Go, %T for the builder", name, gobj), "go-accepts", tt
			}
			if !constEqual(o.Val(), gc.Val()) {
				return "const-decl-value", fmt.Sprintf("declared constant %s: Go %s, builder %s", name, oracle.ConstKey(o.Val()), oracle.ConstKey(gc.Val())), "go-accepts", tt
			}
			if oracle.TypeKey(o.Type()) != oracle.TypeKey(gc.Type()) {
				return fmt.Sprintf("const-decl-type|go=%s|gogen=%s", oracle.TypeKey(o.Type()), oracle.TypeKey(gc.Type())), fmt.Sprintf("declared constant %s: Go type %s, builder type %s", name, o.Type(), gc.Type()), "go-accepts", tt
			}
		case *types.Var:
			if strings.HasPrefix(name, "a") && len(name) == 2 {
				if oracle.TypeKey(o.Type()) != oracle.TypeKey(gobj.Type()) {
					return "array-length", fmt.Sprintf("array variable %s: Go %s, builder %s", name, o.Type(), gobj.Type()), "go-accepts", tt
				}
			}
		}
	}
	return "", "", "go-accepts", tt
}

func TestC04(t *testing.T) {
	r := hx.Start(t, "C04")
	r.SetRule("G-const: constant expression trees to depth 5 over literals of every untyped kind, values at and around every integer boundary, > 64-bit values, typed constants of every basic kind (declared and by conversion, incl. named types), all unary/binary operators incl. shifts with constant counts of every kind, comparisons, len/cap of constant strings and of array / pointer-to-array variables, min/max/complex/real/imag, unsafe.Sizeof/Alignof/Offsetof, numeric and string conversions, non-constant look-alikes; placed in const declarations (untyped, typed, iota blocks), var initialisers and array lengths. Oracle: go/types rejects => the builder reports an error; otherwise for every sub-expression CVal != nil <=> go/types has a value and the values are exactly equal (go/constant, no tolerance), declared constants' values and types and array lengths agree. Non-trivial: tree contains a boundary/wide value, a shift, a division, a conversion or a typed constant; distinct by source.")
	r.Assume("go/types + go/constant are the oracle (both sides use go/constant's arbitrary-precision arithmetic, agreement in its last bits is by construction)", "unsafe sizes are those of go/types' gc sizes for the host architecture")
	defer r.Done()
	eval := func(c *progCase) (string, string) {
		sig, msg, _, _ := c04Eval(c)
		return sig, msg
	}
	if r.Replay != "" {
		var cb c04Block
		if err := r.ReplayInput(&cb); err == nil && len(cb.Specs) > 0 {
			r.Eval()
			if sig, msg := c04BlockEval(&cb); sig != "" {
				r.Report(&cb, sig, "%s", msg)
			}
			return
		}
		var c progCase
		if err := r.ReplayInput(&c); err != nil {
			t.Fatal(err)
		}
		r.Eval()
		if sig, msg := eval(&c); sig != "" {
			r.Report(&c, sig, "%s", msg)
		}
		return
	}
	if r.Shard == 0 {
		replayFindings(r, eval)
	}
	// const blocks filled in any order through the position API (NewPos / NewAt / NextAt), the way a
	// front end that resolves constants on demand uses it
	r.Check(t, "const-block-order", r.N(600, 20000), func(t *rapid.T) {
		n := rapid.IntRange(2, 6).Draw(t, "nspecs")
		b := &c04Block{}
		for i := 0; i < n; i++ {
			sp := c04Spec{Expr: -1, Names: rapid.IntRange(1, 2).Draw(t, "nnames")}
			if i == 0 || rapid.IntRange(0, 1).Draw(t, "explicit") == 0 {
				sp.Expr = rapid.IntRange(0, len(c04BlockExprs)-1).Draw(t, "expr")
			} else {
				sp.Names = b.Specs[i-1].Names // an implicit spec repeats the preceding one
			}
			b.Specs = append(b.Specs, sp)
		}
		b.Order = rapid.Permutation(seqInts(n)).Draw(t, "order")
		sig, msg := c04BlockEval(b)
		r.Eval()
		r.Class("const-block-by-position")
		inOrder := true
		for i, k := range b.Order {
			inOrder = inOrder && i == k
		}
		if sig != "" {
			if f := r.MatchKnown(sig); f != nil {
				r.Known(f)
				return
			}
			r.Fail(t, b, sig, "%s", msg)
		}
		if !inOrder {
			r.Class("const-block-filled-out-of-order")
			r.Nontrivial(fmt.Sprint(b))
		}
	})
	r.Check(t, "constant-folding", r.N(12000, 600000), func(t *rapid.T) {
		typed := rapid.IntRange(0, 2).Draw(t, "typed") == 0
		xgo := rapid.IntRange(0, 4).Draw(t, "xgo") == 0
		src, feats := gen.ConstProgram(t, typed)
		c := &progCase{Files: []string{src}, XGo: xgo}
		sig, msg, cls, tt := c04Eval(c)
		r.Eval()
		r.Class("outcome:" + cls)
		if sig != "" {
			if f := r.MatchKnown(sig); f != nil {
				r.Known(f)
				return
			}
			if f := r.MatchKnownOf("C03", sig); f != nil {
				r.Class("contaminated-by:" + f.ID)
				return
			}
			r.Fail(t, c, sig, "%s", msg)
		}
		if tt != nil {
			r.ClassN("subexpressions-compared", int64(tt.compared))
		}
		for f, n := range feats {
			r.ClassN("feat:"+f, int64(n))
		}
		if typed {
			r.Class("profile:typed")
		}
		if feats["wide-const"]+feats["shift"]+feats["int-div"]+feats["conversion"]+feats["typed-const"] > 0 {
			r.Nontrivial(src)
		}
		r.Sample(func() any {
			return map[string]any{"xgo": xgo, "outcome": cls, "decls": src[strings.Index(src, "func fn()"):]}
		})
	})
}

// ---- const blocks filled by position ------------------------------------------------------------

type c04Spec struct {
	Expr  int `json:"expr"`  // index into c04BlockExprs, -1: implicit repetition of the preceding spec
	Names int `json:"names"` // 1 or 2 names (two names: the expression list has two expressions)
}

type c04Block struct {
	Specs []c04Spec `json:"specs"`
	Order []int     `json:"order"` // the order in which the specs are resolved
}

// c04BlockExprs: pairs of expressions over iota; a spec with one name uses the first
var c04BlockExprs = []struct {
	src  [2]string
	push func(cb *gogen.CodeBuilder, k int)
}{
	{[2]string{"iota", "iota + 100"}, func(cb *gogen.CodeBuilder, k int) {
		if k == 0 {
			cb.Val(types.Universe.Lookup("iota"))
		} else {
			cb.Val(types.Universe.Lookup("iota")).Val(100).BinaryOp(token.ADD)
		}
	}},
	{[2]string{"iota * 10", "-iota"}, func(cb *gogen.CodeBuilder, k int) {
		if k == 0 {
			cb.Val(types.Universe.Lookup("iota")).Val(10).BinaryOp(token.MUL)
		} else {
			cb.Val(types.Universe.Lookup("iota")).UnaryOp(token.SUB)
		}
	}},
	{[2]string{"1 << iota", "iota * iota"}, func(cb *gogen.CodeBuilder, k int) {
		if k == 0 {
			cb.Val(1).Val(types.Universe.Lookup("iota")).BinaryOp(token.SHL)
		} else {
			cb.Val(types.Universe.Lookup("iota")).Val(types.Universe.Lookup("iota")).BinaryOp(token.MUL)
		}
	}},
	{[2]string{"7", "iota - 3"}, func(cb *gogen.CodeBuilder, k int) {
		if k == 0 {
			cb.Val(7)
		} else {
			cb.Val(types.Universe.Lookup("iota")).Val(3).BinaryOp(token.SUB)
		}
	}},
}

func seqInts(n int) []int {
	out := make([]int, n)
	for i := range out {
		out[i] = i
	}
	return out
}

// c04BlockEval fills the block in the given order and compares every constant's value with the one
// go/types computes for the written block.
func c04BlockEval(b *c04Block) (sig, msg string) {
	n := len(b.Specs)
	if len(b.Order) != n || n == 0 || b.Specs[0].Expr < 0 {
		return "", ""
	}
	var out string
	var perr any
	var pkg *gogen.Package
	var names []string
	func() {
		defer func() { perr = recover() }()
		pkg = gogen.NewPackage("", "main", &gogen.Config{Importer: oracle.Importer()})
		defs := pkg.NewConstDefs(pkg.Types.Scope())
		pos := make([]gogen.ValueAt, n)
		for i := range pos {
			pos[i] = defs.NewPos()
		}
		// the expression a spec is folded from: its own, or the nearest explicit one before it
		exprOf := make([]int, n)
		for i, sp := range b.Specs {
			exprOf[i] = sp.Expr
			if sp.Expr < 0 {
				exprOf[i] = exprOf[i-1]
			}
		}
		for _, i := range b.Order {
			sp := b.Specs[i]
			e := c04BlockExprs[exprOf[i]%len(c04BlockExprs)]
			nn := sp.Names
			fn := func(cb *gogen.CodeBuilder) int {
				for k := 0; k < nn; k++ {
					e.push(cb, k)
				}
				return nn
			}
			var ns []string
			for k := 0; k < nn; k++ {
				ns = append(ns, fmt.Sprintf("k%d_%d", i, k))
			}
			if sp.Expr >= 0 {
				defs.NewAt(pos[i], fn, i, token.NoPos, nil, ns...)
			} else {
				defs.NextAt(pos[i], fn, i, token.NoPos, ns...)
			}
		}
		for i, sp := range b.Specs {
			for k := 0; k < sp.Names; k++ {
				names = append(names, fmt.Sprintf("k%d_%d", i, k))
			}
		}
		var buf bytes.Buffer
		if err := gogen.WriteTo(&buf, pkg); err != nil {
			panic(err)
		}
		out = buf.String()
	}()
	shape := fmt.Sprintf("n=%d", n)
	if perr != nil {
		if k := drive.ClassifyPanic(perr); k == "runtime" || k == "other" {
			return "const-block-fault|" + shape, fmt.Sprintf("run-time fault: %v", perr)
		}
		return "const-block-rejected|" + shape + "|" + normMsg(fmt.Sprint(perr)), fmt.Sprintf("a valid const block filled by position is rejected: %v\n%+v", perr, *b)
	}
	chk := oracle.CheckSources("main", map[string]string{"out.go": out}, oracle.Importer())
	if !chk.OK() {
		return "const-block-output-rejected|" + oracle.MsgClass(chk.ErrText(1)), fmt.Sprintf("the written const block is rejected by go/types: %s\n%s", chk.ErrText(2), out)
	}
	for _, name := range names {
		got, ok := pkg.Types.Scope().Lookup(name).(*types.Const)
		want, ok2 := chk.Pkg.Scope().Lookup(name).(*types.Const)
		if !ok || !ok2 {
			return "const-block-missing|" + shape, fmt.Sprintf("constant %s is missing (builder %v, output %v)\n%s", name, ok, ok2, out)
		}
		if !constEqual(want.Val(), got.Val()) {
			return "const-block-value", fmt.Sprintf("constant %s: the written block gives %s, the builder folded %s (specs resolved in the order %v)\n%s", name, oracle.ConstKey(want.Val()), oracle.ConstKey(got.Val()), b.Order, out)
		}
	}
	return "", ""
}
