package props

import (
	"fmt"
	"go/types"
	"sort"
	"strings"
	"testing"

	"pgregory.net/rapid"

	"verif/h/gen"
	"verif/h/hx"
	"verif/h/oracle"
)

// ---- C04: folded constant values are exactly Go's constant values ------------------------------

func c04Eval(c *progCase) (sig, msg string, cls string, tt *typeTracer) {
	td, tt, pr := c03Eval(c, true)
	if pr.Failure != "" {
		return "", "", "unparsable", tt
	}
	if pr.Res.PanicKind == "unsupported" {
		return "", "", "unsupported", tt
	}
	if pr.Res.PanicKind == "runtime" || pr.Res.PanicKind == "other" {
		return "", "", "runtime-fault(C17)", tt
	}
	goOK := pr.Src.OK()
	if !goOK {
		if pr.Res.Accepted() {
			m := pr.Src.ErrText(1)
			return "accepts-invalid-const|" + oracle.MsgClass(m), fmt.Sprintf("go/types rejects the constant expression (%s) but the builder accepted it and folded it", m), "go-rejects", tt
		}
		return "", "", "go-rejects", tt
	}
	if td != nil {
		if td.Kind == "type-mismatch" || td.Kind == "decl-type" {
			return td.sig(), td.String(), "go-accepts", tt
		}
		return td.Kind + "|" + td.Site, td.String(), "go-accepts", tt
	}
	if !pr.Res.Accepted() {
		return "rejects-valid-const|" + normMsg(pr.Res.ErrText()), fmt.Sprintf("valid constant expression rejected: %s\n  at: %s", pr.Res.ErrText(), pr.stmtAt()), "go-accepts", tt
	}
	// declared constants and array lengths
	gs := pr.Res.Pkg.Types.Scope()
	names := pr.Src.Pkg.Scope().Names()
	sort.Strings(names)
	for _, name := range names {
		obj := pr.Src.Pkg.Scope().Lookup(name)
		gobj := gs.Lookup(name)
		if gobj == nil {
			continue
		}
		switch o := obj.(type) {
		case *types.Const:
			gc, ok := gobj.(*types.Const)
			if !ok {
				return "const-decl-kind|" + name, fmt.Sprintf("%s is a constant for Go, %T for the builder", name, gobj), "go-accepts", tt
			}
			if !constEqual(o.Val(), gc.Val()) {
				return "const-decl-value", fmt.Sprintf("declared constant %s: Go %s, builder %s", name, oracle.ConstKey(o.Val()), oracle.ConstKey(gc.Val())), "go-accepts", tt
			}
			if oracle.TypeKey(o.Type()) != oracle.TypeKey(gc.Type()) {
				return fmt.Sprintf("const-decl-type|go=%s|gogen=%s", oracle.TypeKey(o.Type()), oracle.TypeKey(gc.Type())), fmt.Sprintf("declared constant %s: Go type %s, builder type %s", name, o.Type(), gc.Type()), "go-accepts", tt
			}
		case *types.Var:
			if strings.HasPrefix(name, "a") && len(name) == 2 {
				if oracle.TypeKey(o.Type()) != oracle.TypeKey(gobj.Type()) {
					return "array-length", fmt.Sprintf("array variable %s: Go %s, builder %s", name, o.Type(), gobj.Type()), "go-accepts", tt
				}
			}
		}
	}
	return "", "", "go-accepts", tt
}

func TestC04(t *testing.T) {
	r := hx.Start(t, "C04")
	r.SetRule("G-const: constant expression trees to depth 5 over literals of every untyped kind, values at and around every integer boundary, > 64-bit values, typed constants of every basic kind (declared and by conversion, incl. named types), all unary/binary operators incl. shifts with constant counts of every kind, comparisons, len/cap of constant strings and of array / pointer-to-array variables, min/max/complex/real/imag, unsafe.Sizeof/Alignof/Offsetof, numeric and string conversions, non-constant look-alikes; placed in const declarations (untyped, typed, iota blocks), var initialisers and array lengths. Oracle: go/types rejects => the builder reports an error; otherwise for every sub-expression CVal != nil <=> go/types has a value and the values are exactly equal (go/constant, no tolerance), declared constants' values and types and array lengths agree. Non-trivial: tree contains a boundary/wide value, a shift, a division, a conversion or a typed constant; distinct by source.")
	r.Assume("go/types + go/constant are the oracle (both sides use go/constant's arbitrary-precision arithmetic, agreement in its last bits is by construction)", "unsafe sizes are those of go/types' gc sizes for the host architecture")
	defer r.Done()
	eval := func(c *progCase) (string, string) {
		sig, msg, _, _ := c04Eval(c)
		return sig, msg
	}
	if r.Replay != "" {
		var c progCase
		if err := r.ReplayInput(&c); err != nil {
			t.Fatal(err)
		}
		r.Eval()
		if sig, msg := eval(&c); sig != "" {
			r.Report(&c, sig, "%s", msg)
		}
		return
	}
	if r.Shard == 0 {
		replayFindings(r, eval)
	}
	r.Check(t, "constant-folding", r.N(12000, 600000), func(t *rapid.T) {
		typed := rapid.IntRange(0, 2).Draw(t, "typed") == 0
		xgo := rapid.IntRange(0, 4).Draw(t, "xgo") == 0
		src, feats := gen.ConstProgram(t, typed)
		c := &progCase{Files: []string{src}, XGo: xgo}
		sig, msg, cls, tt := c04Eval(c)
		r.Eval()
		r.Class("outcome:" + cls)
		if sig != "" {
			if f := r.MatchKnown(sig); f != nil {
				r.Known(f)
				return
			}
			if f := r.MatchKnownOf("C03", sig); f != nil {
				r.Class("contaminated-by:" + f.ID)
				return
			}
			r.Fail(t, c, sig, "%s", msg)
		}
		if tt != nil {
			r.ClassN("subexpressions-compared", int64(tt.compared))
		}
		for f, n := range feats {
			r.ClassN("feat:"+f, int64(n))
		}
		if typed {
			r.Class("profile:typed")
		}
		if feats["wide-const"]+feats["shift"]+feats["int-div"]+feats["conversion"]+feats["typed-const"] > 0 {
			r.Nontrivial(src)
		}
		r.Sample(func() any {
			return map[string]any{"xgo": xgo, "outcome": cls, "decls": src[strings.Index(src, "func fn()"):]}
		})
	})
}
