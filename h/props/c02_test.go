package props

import (
	"fmt"
	"strings"
	"testing"

	"pgregory.net/rapid"

	"verif/h/gen"
	"verif/h/hx"
	"verif/h/oracle"
)

// ---- C02: every well-typed Go program is accepted and reproduced faithfully -------------------

// c02Eval returns the discrepancy (signature, message) of one case, or "" if the property holds.
// skip is set when the source is not a valid Go program (outside the quantifier).
func c02Eval(c *progCase) (sig, msg string, pr *progRun, skip bool) {
	pr = runProgram(c, nil)
	if pr.Failure != "" || !pr.Src.OK() {
		return "", "", pr, true
	}
	if pr.Res.PanicKind == "unsupported" {
		return "", "", pr, true
	}
	if !pr.Res.Accepted() {
		return "rejects-valid|" + normMsg(pr.Res.ErrText()), fmt.Sprintf("valid program rejected: %s\n  at: %s\n%s", pr.Res.ErrText(), pr.stmtAt(), firstLines(pr.Res.Stack, 30)), pr, false
	}
	if !pr.Out.OK() {
		return "output-ill-typed|" + normMsg(pr.Out.ErrText(1)), "emitted code does not type-check: " + pr.Out.ErrText(3) + "\n" + outputContext(pr), pr, false
	}
	want, got := oracle.Dump(pr.Src), oracle.Dump(pr.Out)
	if want != got {
		if oracle.DumpWith(pr.Src, oracle.DumpOpts{FoldBoolConsts: true}) == oracle.DumpWith(pr.Out, oracle.DumpOpts{FoldBoolConsts: true}) {
			w, g := firstDiff(want, got)
			return "dump-mismatch|bool-constant-expression-folded-to-literal", fmt.Sprintf("a constant boolean expression is emitted as the literal of its value (the only difference):\n  source: %s\n  output: %s", w, g), pr, false
		}
		w, g := firstDiff(want, got)
		return "dump-mismatch|" + normMsg(w) + " => " + normMsg(g), fmt.Sprintf("emitted program differs from the source program:\n  source: %s\n  output: %s", w, g), pr, false
	}
	return "", "", pr, false
}

func outputContext(pr *progRun) string {
	if pr.Out == nil {
		return ""
	}
	var pos string
	if pr.Out.ParseErr != nil {
		pos = pr.Out.ParseErr.Error()
	} else if es := pr.Out.HardErrs(); len(es) > 0 {
		pos = pr.Out.Fset.Position(es[0].Pos).String()
	}
	var file string
	var line int
	if i := strings.Index(pos, ".go:"); i >= 0 {
		file = pos[:i+3]
		fmt.Sscanf(pos[i+4:], "%d", &line)
	}
	if file == "_default.go" {
		file = ""
	}
	lines := strings.Split(pr.Res.Output[file], "\n")
	var b strings.Builder
	for i := line - 2; i <= line+1; i++ {
		if i >= 1 && i <= len(lines) {
			fmt.Fprintf(&b, "    %d: %s\n", i, lines[i-1])
		}
	}
	return b.String()
}

func firstDiff(a, b string) (string, string) {
	al, bl := strings.Split(a, "\n"), strings.Split(b, "\n")
	for i := 0; i < len(al) || i < len(bl); i++ {
		var x, y string
		if i < len(al) {
			x = al[i]
		}
		if i < len(bl) {
			y = bl[i]
		}
		if x != y {
			return strings.TrimSpace(x), strings.TrimSpace(y)
		}
	}
	return "", ""
}

// stmtKinds counts distinct statement kinds among generator features.
func stmtKinds(feats map[string]int) int {
	n := 0
	for f := range feats {
		if strings.HasPrefix(f, "stmt:") {
			n++
		}
	}
	return n
}

// knownAvoid: shapes excluded by construction (open known findings of any property).
func knownAvoid(string) gen.Avoid { return gen.Avoid(hx.KnownAvoid()) }

func TestC02(t *testing.T) {
	r := hx.Start(t, "C02")
	r.SetRule("G-valid: typed-by-construction programs (package vars/consts/types/funcs/methods/generics prelude + generated package vars, functions with up to 8 statements nested to depth 3 over every statement kind, expressions to depth 3 over ~45 types), each confirmed valid by go/types, driven through the canonical builder sequence; oracle: no reported error, output type-checks, canonical typed dump of output == dump of source (declarations, statement tree, operators, constant values, resolved object identities, expression types). Non-trivial: >= 3 distinct statement kinds and >= 15 generator features; distinct by source text.")
	r.Assume("go/types (go1.23) is the specification of validity and of identifier binding", "the front end in h/drive issues the operation sequence a compiler front end would (taken from the repository's tests)")
	defer r.Done()
	eval := func(c *progCase) (string, string) {
		sig, msg, _, _ := c02Eval(c)
		return sig, msg
	}
	if r.Replay != "" {
		var c progCase
		if err := r.ReplayInput(&c); err != nil {
			t.Fatal(err)
		}
		r.Eval()
		if sig, msg := eval(&c); sig != "" {
			r.Report(&c, sig, "%s", msg)
		}
		return
	}
	if r.Shard == 0 {
		replayFindings(r, eval)
	}
	r.Check(t, "valid-programs", r.N(4000, 150000), func(t *rapid.T) {
		xgo := rapid.IntRange(0, 3).Draw(t, "xgo") == 0
		p := gen.GenProgram(t, gen.ProgOpts{Avoid: knownAvoid("C02")})
		c := &progCase{Files: []string{p.Src}, XGo: xgo}
		sig, msg, _, skip := c02Eval(c)
		r.Eval()
		if skip {
			r.Class("generator_unsound_or_unsupported")
			return
		}
		if sig != "" {
			if f := r.MatchKnown(sig); f != nil {
				r.Known(f) // the folded dumps are equal, so the rest of the program was still compared
			} else {
				r.Fail(t, c, sig, "%s", msg)
			}
		}
		for _, f := range featKeys(p.Feats) {
			r.ClassN(f, int64(p.Feats[f]))
		}
		if xgo {
			r.Class("config:xgo")
		} else {
			r.Class("config:default")
		}
		if stmtKinds(p.Feats) >= 3 && len(p.Feats) >= 15 {
			r.Nontrivial(p.Src)
		}
		r.Sample(func() any { return map[string]any{"xgo": xgo, "source": p.Src} })
	})
}
