package props

import (
	"fmt"
	"go/ast"
	"go/constant"
	"go/token"
	"go/types"
	"strings"
	"testing"

	"github.com/goplus/gogen"
	"pgregory.net/rapid"

	"verif/h/drive"
	"verif/h/gen"
	"verif/h/hx"
	"verif/h/oracle"
)

// ---- C03: types the builder reports equal the types Go assigns --------------------------------

// typeDisc is a disagreement between the builder and go/types about one expression or object.
type typeDisc struct {
	Kind  string // type-mismatch | cval-presence | cval-value | decl-type
	Site  string // construct, operator, operand classes
	Go    string
	Gogen string
	Expr  string
}

func (d *typeDisc) sig() string {
	return fmt.Sprintf("%s|%s|go=%s|gogen=%s", d.Kind, d.Site, d.Go, d.Gogen)
}

func (d *typeDisc) String() string {
	return fmt.Sprintf("%s at `%s` [%s]: go/types says %s, the builder says %s", d.Kind, d.Expr, d.Site, d.Go, d.Gogen)
}

// typeTracer compares, bottom-up, every traced sub-expression with go/types' context-free view of
// the same source expression; only the first (innermost) disagreement is kept.
type typeTracer struct {
	pr       *progRun
	first    *typeDisc
	checkVal bool // also compare constant values (C04)
	compared int
	nonTriv  map[string]bool
	skipExpr map[ast.Expr]bool
	tsClause map[*ast.Ident]int
}

func newTypeTracer(pr *progRun, checkVal bool) *typeTracer {
	tt := &typeTracer{pr: pr, checkVal: checkVal, nonTriv: map[string]bool{}, skipExpr: map[ast.Expr]bool{}, tsClause: map[*ast.Ident]int{}}
	// call targets and instantiation bases are compared through the call's result, not by themselves
	// a generic function used as a value is instantiated by its context; go/types records the
	// instantiated type on the identifier, the builder instantiates when the value is matched
	for id := range pr.Src.Info.Instances {
		tt.skipExpr[id] = true
	}
	for _, f := range pr.Files {
		ast.Inspect(f, func(n ast.Node) bool {
			switch x := n.(type) {
			case *ast.SelectorExpr:
				if _, ok := pr.Src.Info.Instances[x.Sel]; ok {
					tt.skipExpr[x] = true
				}
			case *ast.CallExpr:
				tt.skipExpr[unparenE(x.Fun)] = true
			case *ast.IndexExpr:
				tt.markGenericBase(x.X)
			case *ast.IndexListExpr:
				tt.markGenericBase(x.X)
			}
			return true
		})
	}
	return tt
}

func (tt *typeTracer) markGenericBase(x ast.Expr) {
	if tv, ok := tt.pr.Src.Info.Types[x]; ok {
		if sig, ok := tv.Type.(*types.Signature); ok && sig.TypeParams().Len() > 0 {
			tt.skipExpr[unparenE(x)] = true
		}
	}
}

func unparenE(e ast.Expr) ast.Expr {
	for {
		p, ok := e.(*ast.ParenExpr)
		if !ok {
			return e
		}
		e = p.X
	}
}

// contextFree returns go/types' type and constant value of e evaluated on its own.
func (tt *typeTracer) contextFree(e ast.Expr) (types.TypeAndValue, bool) {
	info := tt.pr.Src.Info
	tv, ok := info.Types[e]
	if !ok {
		return tv, false
	}
	if tv.Type == nil {
		return tv, false
	}
	if b, isBasic := tv.Type.Underlying().(*types.Basic); isBasic && b.Kind() != types.Invalid && tv.IsValue() {
		// the recorded type of an untyped expression is its context-converted type; re-evaluate
		ci := &types.Info{Types: map[ast.Expr]types.TypeAndValue{}}
		if err := types.CheckExpr(tt.pr.Fset, tt.pr.Src.Pkg, e.Pos(), e, ci); err == nil {
			if tv2, ok := ci.Types[e]; ok && tv2.Type != nil {
				return tv2, true
			}
		}
		// go/types cannot re-evaluate this expression on its own (e.g. a function literal whose body
		// refers to its parameters); its context-free type is unknown, so it is not compared
		return tv, false
	}
	return tv, true
}

func operandClass(tt *typeTracer, e ast.Expr) string {
	tv, ok := tt.contextFree(e)
	if !ok {
		return "?"
	}
	k := "val"
	if tv.Value != nil {
		k = "const"
	} else if tv.IsNil() {
		k = "nil"
	} else if tv.IsType() {
		k = "type"
	}
	return k + ":" + oracle.TypeKey(tv.Type)
}

func (tt *typeTracer) site(e ast.Expr) string {
	switch x := unparenE(e).(type) {
	case *ast.BinaryExpr:
		return fmt.Sprintf("Binary(%s)|%s,%s", x.Op, operandClass(tt, x.X), operandClass(tt, x.Y))
	case *ast.UnaryExpr:
		return fmt.Sprintf("Unary(%s)|%s", x.Op, operandClass(tt, x.X))
	case *ast.CallExpr:
		var as []string
		for _, a := range x.Args {
			as = append(as, operandClass(tt, a))
		}
		fun := types.ExprString(x.Fun)
		if tv, ok := tt.pr.Src.Info.Types[x.Fun]; ok && tv.IsType() {
			fun = "conv:" + oracle.TypeKey(tv.Type)
		} else if len(fun) > 24 {
			fun = "func"
		}
		return fmt.Sprintf("Call(%s)|%s", fun, strings.Join(as, ","))
	case *ast.SelectorExpr:
		return "Selector(" + x.Sel.Name + ")|" + operandClass(tt, x.X)
	case *ast.IndexExpr:
		return "Index|" + operandClass(tt, x.X)
	case *ast.SliceExpr:
		return "Slice|" + operandClass(tt, x.X)
	case *ast.BasicLit:
		return "Lit(" + x.Kind.String() + ")"
	case *ast.Ident:
		return "Ident"
	case *ast.CompositeLit:
		return "CompositeLit"
	case *ast.TypeAssertExpr:
		return "TypeAssert|" + operandClass(tt, x.X)
	case *ast.StarExpr:
		return "Star|" + operandClass(tt, x.X)
	case *ast.FuncLit:
		return "FuncLit"
	}
	return fmt.Sprintf("%T", e)
}

// constEqual compares two constants exactly (kinds aligned by go/constant; no tolerance).
func constEqual(a, b constant.Value) bool {
	if a == nil || b == nil {
		return a == nil && b == nil
	}
	switch a.Kind() {
	case constant.Bool, constant.String:
		return a.Kind() == b.Kind() && constant.Compare(a, token.EQL, b)
	case constant.Unknown:
		return b.Kind() == constant.Unknown
	}
	switch b.Kind() {
	case constant.Int, constant.Float, constant.Complex:
		return constant.Compare(a, token.EQL, b)
	}
	return false
}

func gogenTypeKey(t types.Type) string {
	if t == nil {
		return "<nil>"
	}
	if tt, ok := t.(*gogen.TypeType); ok {
		return "type:" + oracle.TypeKey(tt.Type())
	}
	return oracle.TypeKey(t)
}

func (tt *typeTracer) trace(e ast.Expr, el *gogen.Element, ref bool) {
	if tt.first != nil || tt.pr.Src == nil || tt.pr.Src.Info == nil {
		return
	}
	e0 := unparenE(e)
	if tt.skipExpr[e0] {
		return
	}
	tv, ok := tt.contextFree(e0)
	if !ok {
		return // go/types could not type this expression (ill-typed mutant)
	}
	if tv.IsBuiltin() {
		return
	}
	if b, ok := tv.Type.(*types.Basic); ok && b.Kind() == types.Invalid {
		return
	}
	gt := el.Type
	if ref {
		gt, _ = gogen.DerefType(gt)
	}
	var goKey string
	switch {
	case tv.IsVoid():
		goKey = "<nil>" // a call without results: the builder reports no type
	case tv.IsType():
		goKey = "type:" + oracle.TypeKey(tv.Type)
	default:
		goKey = oracle.TypeKey(tv.Type)
	}
	ggKey := gogenTypeKey(gt)
	tt.compared++
	switch e0.(type) {
	case *ast.BasicLit, *ast.Ident:
	default:
		tt.nonTriv[tt.site(e0)+"|"+goKey] = true
	}
	if goKey != ggKey {
		tt.first = &typeDisc{Kind: "type-mismatch", Site: tt.site(e0), Go: goKey, Gogen: ggKey, Expr: types.ExprString(e0)}
		return
	}
	if tt.checkVal && !ref && !tv.IsType() {
		gv := el.CVal
		switch {
		case (tv.Value == nil) != (gv == nil):
			tt.first = &typeDisc{Kind: "cval-presence", Site: tt.site(e0), Go: oracle.ConstKey(tv.Value), Gogen: oracle.ConstKey(gv), Expr: types.ExprString(e0)}
		case tv.Value != nil && !constEqual(tv.Value, gv):
			tt.first = &typeDisc{Kind: "cval-value", Site: tt.site(e0), Go: oracle.ConstKey(tv.Value), Gogen: oracle.ConstKey(gv), Expr: types.ExprString(e0)}
		}
	}
}

// onDecl compares the type of freshly declared names in the builder's scope with go/types' Defs.
func (tt *typeTracer) onDecl(d *drive.Driver, ids []*ast.Ident) {
	if tt.first != nil || tt.pr.Src == nil {
		return
	}
	for _, id := range ids {
		if id.Name == "_" {
			continue
		}
		obj := tt.pr.Src.Info.Defs[id]
		if obj == nil {
			if cc := tt.implicitFor(id); cc != nil {
				obj = cc
			} else {
				continue
			}
		}
		if obj.Type() == nil || obj.Type() == types.Typ[types.Invalid] {
			continue
		}
		_, gobj := d.CB.Scope().LookupParent(id.Name, token.NoPos)
		if gobj == nil {
			continue
		}
		tt.compared++
		goKey, ggKey := oracle.TypeKey(obj.Type()), oracle.TypeKey(gobj.Type())
		tt.nonTriv["decl|"+goKey] = true
		if goKey != ggKey {
			tt.first = &typeDisc{Kind: "decl-type", Site: "decl", Go: goKey, Gogen: ggKey, Expr: id.Name}
			return
		}
		if c, ok := obj.(*types.Const); ok && tt.checkVal {
			if gc, ok := gobj.(*types.Const); ok && !constEqual(c.Val(), gc.Val()) {
				tt.first = &typeDisc{Kind: "cval-value", Site: "const-decl", Go: oracle.ConstKey(c.Val()), Gogen: oracle.ConstKey(gc.Val()), Expr: id.Name}
				return
			}
		}
	}
}

// implicitFor finds the implicit object of a type-switch symbol for the clause being translated:
// the driver reports the symbol after each clause's Then.
func (tt *typeTracer) implicitFor(id *ast.Ident) types.Object {
	tt.tsClause[id]++
	k := tt.tsClause[id]
	var found types.Object
	for _, f := range tt.pr.Files {
		ast.Inspect(f, func(n ast.Node) bool {
			ts, ok := n.(*ast.TypeSwitchStmt)
			if !ok {
				return true
			}
			if as, ok := ts.Assign.(*ast.AssignStmt); ok && as.Lhs[0] == ast.Expr(id) {
				if k-1 < len(ts.Body.List) {
					found = tt.pr.Src.Info.Implicits[ts.Body.List[k-1]]
				}
				return false
			}
			return true
		})
	}
	return found
}

func TestC03(t *testing.T) {
	r := hx.Start(t, "C03")
	r.SetRule("every sub-expression (bottom-up, operand stack top after it is pushed; assignment targets through their reference type), every :=/var/const/range/type-switch declared name of G-valid programs (typed-constant operands allowed in a quarter of the programs): canonical builder type == canonical context-free go/types type of the same source expression (types.CheckExpr for basic-typed expressions, so untyped kinds stay visible). Non-trivial: a compared expression that is not a bare literal or identifier; distinct by (construct, operator, operand classes, type).")
	r.Assume("go/types is the oracle", "call targets and generic-function bases are compared through the call / instantiation result")
	defer r.Done()
	eval := func(c *progCase) (string, string) {
		d, _, _ := c03Eval(c, false)
		if d == nil {
			return "", ""
		}
		return d.sig(), d.String()
	}
	if r.Replay != "" {
		var c progCase
		if err := r.ReplayInput(&c); err != nil {
			t.Fatal(err)
		}
		r.Eval()
		if sig, msg := eval(&c); sig != "" {
			r.Report(&c, sig, "%s", msg)
		}
		return
	}
	if r.Shard == 0 {
		replayFindings(r, eval)
	}
	avoid := knownAvoid("C03")
	r.Check(t, "expression-types", r.N(3000, 120000), func(t *rapid.T) {
		xgo := rapid.IntRange(0, 3).Draw(t, "xgo") == 0
		typed := rapid.IntRange(0, 3).Draw(t, "typedconsts") == 0 && !avoid["typed-const-fold"]
		p := gen.GenProgram(t, gen.ProgOpts{Avoid: avoid, TypedConsts: typed})
		c := &progCase{Files: []string{p.Src}, XGo: xgo}
		d, tt, pr := c03Eval(c, false)
		r.Eval()
		if pr.Failure != "" || !pr.Src.OK() {
			r.Class("generator_unsound")
			return
		}
		if d != nil {
			if f := r.MatchKnown(d.sig()); f != nil {
				r.Known(f)
				r.Class("ended-early-on-known-finding")
				return
			}
			r.Fail(t, c, d.sig(), "%s", d.String())
		}
		r.ClassN("expressions-compared", int64(tt.compared))
		for k := range tt.nonTriv {
			r.Nontrivial(k)
		}
		if typed {
			r.Class("profile:typed-consts")
		}
		r.Sample(func() any { return map[string]any{"xgo": xgo, "compared": tt.compared, "source": p.Src} })
	})
}

// c03Eval runs the program with the type tracer attached.
func c03Eval(c *progCase, checkVal bool) (*typeDisc, *typeTracer, *progRun) {
	var tt *typeTracer
	pr := runProgram(c, &runHooks{Setup: func(d *drive.Driver, pr *progRun) {
		tt = newTypeTracer(pr, checkVal)
		pr.tracer = tt
		d.Trace = tt.trace
		d.OnDecl = func(ids []*ast.Ident) { tt.onDecl(d, ids) }
	}})
	if tt == nil {
		return nil, &typeTracer{}, pr
	}
	return tt.first, tt, pr
}
