package props

import (
	"fmt"
	"go/ast"
	"go/parser"
	"go/token"
	"os"
	"sort"
	"strings"
	"testing"

	"pgregory.net/rapid"

	"verif/h/drive"
	"verif/h/gen"
	"verif/h/oracle"
)

// TestExplore is a development aid (not part of any check): it classifies what gogen does with
// generated valid programs.
func TestExplore(t *testing.T) {
	if os.Getenv("VERIF_EXPLORE") == "" {
		t.Skip()
	}
	classes := map[string]int{}
	examples := map[string]string{}
	total := 0
	note := func(cls, ex string) {
		classes[cls]++
		if _, ok := examples[cls]; !ok {
			examples[cls] = ex
		}
	}
	rapid.Check(t, func(t *rapid.T) {
		p := gen.GenProgram(t, gen.ProgOpts{})
		sc := oracle.CheckSources("main", map[string]string{"a.go": p.Src}, oracle.Importer())
		if !sc.OK() {
			note("gen-unsound", sc.ErrText(1))
			return
		}
		total++
		fset := token.NewFileSet()
		f, _ := parser.ParseFile(fset, "a.go", p.Src, parser.SkipObjectResolution)
		r := drive.Build(fset, []*ast.File{f}, map[string][]byte{"a.go": []byte(p.Src)}, drive.Options{Importer: oracle.Importer()})
		if !r.Accepted() {
			txt := r.ErrText()
			line := ""
			if r.At != nil {
				ln := fset.Position(r.At.Pos()).Line
				lines := strings.Split(p.Src, "\n")
				if ln >= 1 && ln <= len(lines) {
					line = strings.TrimSpace(lines[ln-1])
				}
			} else if i := strings.Index(txt, "a.go:"); i >= 0 {
				var ln int
				fmt.Sscanf(txt[i+5:], "%d", &ln)
				lines := strings.Split(p.Src, "\n")
				if ln >= 1 && ln <= len(lines) {
					line = strings.TrimSpace(lines[ln-1])
				}
			}
			note("REJECT["+r.PanicKind+"] "+oracle.MsgClass(txt), txt+"\n        | "+line+"\n"+firstLines(r.Stack, 0))
			return
		}
		oc := oracle.CheckSources("main", r.Output, oracle.Importer())
		if !oc.OK() {
			msg := oc.ErrText(1)
			var ln int
			if i := strings.Index(msg, ":"); i >= 0 {
				fmt.Sscanf(strings.TrimPrefix(msg, "parse: "), "%d", &ln)
			}
			lines := strings.Split(r.Output[""], "\n")
			ctx := ""
			if ln >= 1 && ln <= len(lines) {
				ctx = lines[ln-1]
			}
			note("ILLTYPED "+oracle.MsgClass(msg), msg+"\n        | "+ctx)
			return
		}
		note("ok", "")
	})
	var ks []string
	for k := range classes {
		ks = append(ks, k)
	}
	sort.Slice(ks, func(i, j int) bool { return classes[ks[i]] > classes[ks[j]] })
	fmt.Printf("total valid programs %d\n", total)
	for _, k := range ks {
		fmt.Printf("%5d %s\n        %s\n", classes[k], k, examples[k])
	}
}

func firstLines(s string, n int) string {
	lines := strings.Split(s, "\n")
	if len(lines) > n {
		lines = lines[:n]
	}
	return strings.Join(lines, "\n")
}

// TestTry (development aid): VERIF_TRY=<file.go> [VERIF_XGO=1] prints what the pipeline does with one program.
func TestTry(t *testing.T) {
	fn := os.Getenv("VERIF_TRY")
	if fn == "" {
		t.Skip()
	}
	src, err := os.ReadFile(fn)
	if err != nil {
		t.Fatal(err)
	}
	drive.DebugStacks = os.Getenv("VERIF_STACK") != ""
	pr := runProgram(&progCase{Files: []string{string(src)}, XGo: os.Getenv("VERIF_XGO") != ""}, nil)
	fmt.Println("source ok:", pr.Src.OK(), pr.Src.ErrText(5))
	fmt.Println("accepted:", pr.Res.Accepted(), "| errors:", pr.Res.ErrText())
	fmt.Println("build:", pr.Res.BuildDur, "write:", pr.Res.WriteDur)
	if pr.Res.Stack != "" {
		fmt.Println(firstLines(pr.Res.Stack, 40))
	}
	for n, s := range pr.Res.Output {
		fmt.Printf("--- output %q\n%s", n, s)
	}
	if pr.Out != nil {
		fmt.Println("output ok:", pr.Out.OK(), pr.Out.ErrText(5))
	}
}
