package props

import (
	"encoding/json"
	"fmt"
	"go/ast"
	"go/constant"
	"go/parser"
	"go/token"
	"go/types"
	"math/big"
	"os"
	"sort"
	"strconv"
	"strings"
	"testing"

	"github.com/goplus/gogen"
	"pgregory.net/rapid"

	"verif/h/drive"
	"verif/h/hx"
	"verif/h/oracle"
)

// ---- C11: every language extension lowers to plain Go with the documented meaning -------------
//
// A case is one extension construct placed in a small function body. The builder side is driven
// through the public CodeBuilder API; the reference side is Go source text of the documented
// desugaring, written here from the documentation / repository examples and not derived from the
// builder's output. Both are type-checked by go/types and compared by canonical typed dump
// (locals are alpha-renamed, so temporaries' names do not matter).

// chooser makes every plan a pure function of a list of small integers: drawn from rapid while
// generating, read back from the list when replaying.
type chooser struct {
	t   *rapid.T
	rec []int
	pos int
}

func (c *chooser) n(label string, n int) int {
	if n <= 1 {
		return 0
	}
	if c.t != nil {
		v := rapid.IntRange(0, n-1).Draw(c.t, label)
		c.rec = append(c.rec, v)
		return v
	}
	if c.pos < len(c.rec) {
		v := c.rec[c.pos] % n
		if v < 0 {
			v = -v
		}
		c.pos++
		return v
	}
	return 0
}

func (c *chooser) pick(label string, xs []string) string { return xs[c.n(label, len(xs))] }

type c11Case struct {
	Feat string `json:"feat"`
	A    []int  `json:"a"`
	Note string `json:"note,omitempty"`
}

type c11Plan struct {
	prelude string
	xgo     bool
	build   func(d *drive.Driver, cb *gogen.CodeBuilder)
	ref     string   // body of func f in the reference
	alts    []string // further reference bodies with the same meaning (any one may match)
	key     string   // distinctness key
	feats   []string
	// mayReject: the construct is outside what the documentation defines; the builder may report an
	// error, but if it accepts, the output must still type-check (no reference comparison).
	mayReject bool
	// after, if set, replaces the dump comparison (used by the big-literal evaluator)
	after func(out *oracle.Checked) (sig, msg string)
	desc  string
	out   string // emitted source of the last run
	// declare adds package-level declarations through the builder before f; builderPrelude, if
	// set, is the source the builder is given (the reference still uses prelude)
	declare        func(d *drive.Driver)
	builderPrelude string
}

var c11Feats = []string{"bti", "member", "cast", "alias", "enum", "big", "optional", "inline", "tuple"}

func c11MakePlan(feat string, ch *chooser) *c11Plan {
	switch feat {
	case "bti":
		return c11PlanBTI(ch)
	case "member":
		return c11PlanMember(ch)
	case "cast":
		return c11PlanCast(ch)
	case "alias":
		return c11PlanAlias(ch)
	case "enum":
		return c11PlanEnum(ch)
	case "big":
		return c11PlanBig(ch)
	case "optional":
		return c11PlanOptional(ch)
	case "inline":
		return c11PlanInline(ch)
	case "tuple":
		return c11PlanTuple(ch)
	}
	return nil
}

// lookup resolves a package-level or universe name to an object.
func c11Obj(d *drive.Driver, name string) types.Object {
	if o := d.Pkg.Types.Scope().Lookup(name); o != nil {
		return o
	}
	if o := types.Universe.Lookup(name); o != nil {
		return o
	}
	panic("c11: no object " + name)
}

func c11Type(d *drive.Driver, name string) types.Type { return c11Obj(d, name).Type() }

func c11ImportsFor(body string) string {
	var imps []string
	for _, p := range []string{"strconv", "strings", "math/big"} {
		base := p[strings.LastIndex(p, "/")+1:]
		if strings.Contains(body, base+".") {
			imps = append(imps, strconv.Quote(p))
		}
	}
	if len(imps) == 0 {
		return ""
	}
	return "import (\n\t" + strings.Join(imps, "\n\t") + "\n)\n\n"
}

// splitPrelude separates "package main\n\n" from the rest so imports can be inserted.
func c11RefSource(prelude, body string) string {
	rest := strings.TrimPrefix(prelude, "package main\n")
	return "package main\n\n" + c11ImportsFor(body) + rest + "\nfunc f() {\n" + body + "}\n"
}

func c11Eval(c *c11Case) (sig, msg string, plan *c11Plan, status string) {
	ch := &chooser{rec: c.A}
	plan = c11MakePlan(c.Feat, ch)
	if plan == nil {
		return "", "", nil, "noplan"
	}
	return c11Run(plan)
}

func c11Run(plan *c11Plan) (sig, msg string, _ *c11Plan, status string) {
	fset := token.NewFileSet()
	bsrc := plan.prelude
	if plan.builderPrelude != "" {
		bsrc = plan.builderPrelude
	}
	f, err := parser.ParseFile(fset, "p.go", bsrc, parser.SkipObjectResolution)
	if err != nil {
		panic(fmt.Sprintf("c11 prelude: %v\n%s", err, bsrc))
	}
	res := drive.Build(fset, []*ast.File{f}, map[string][]byte{"p.go": []byte(bsrc)}, drive.Options{
		Importer: oracle.Importer(), PkgPath: "main", XGo: plan.xgo,
		Finish: func(d *drive.Driver) {
			pkg := d.Pkg
			if plan.declare != nil {
				plan.declare(d)
			}
			cb := pkg.NewFunc(nil, "f", nil, nil, false).BodyStart(pkg)
			plan.build(d, cb)
			cb.End()
		},
	})
	head := plan.desc
	if res.Panic != nil && res.PanicKind != "reported" {
		return "panic:" + res.PanicKind + ":" + plan.featKey(), fmt.Sprintf("%s\nbuilder panicked (%s): %v\n%s", head, res.PanicKind, res.Panic, res.Stack), plan, "panic"
	}
	if !res.Accepted() {
		if plan.mayReject {
			return "", "", plan, "rejected"
		}
		return "rejected:" + plan.featKey() + ":" + oracle.MsgClass(normMsg(res.ErrText())), fmt.Sprintf("%s\nthe builder rejected a documented construct: %s\nreference lowering:\n%s", head, res.ErrText(), plan.ref), plan, "rejected"
	}
	outSrc := res.Output[""]
	plan.out = outSrc
	out := oracle.CheckSources("main", map[string]string{"out.go": outSrc}, oracle.Importer())
	if !out.OK() {
		return "ill-typed:" + plan.featKey() + ":" + oracle.MsgClass(out.ErrText(1)), fmt.Sprintf("%s\nemitted Go does not type-check: %s\n--- output\n%s", head, out.ErrText(3), outSrc), plan, "ill-typed"
	}
	if plan.after != nil {
		if sig, msg := plan.after(out); sig != "" {
			return sig, fmt.Sprintf("%s\n%s\n--- output\n%s", head, msg, outSrc), plan, "mismatch"
		}
		return "", "", plan, "ok"
	}
	if plan.mayReject {
		return "", "", plan, "accepted-undocumented"
	}
	// constant boolean folding is C02's subject (finding F-C02-boolfold), not C11's
	opts := oracle.DumpOpts{FoldBoolConsts: true, LabelName: func(n string) string {
		if strings.HasPrefix(n, "_autoGo_") || strings.HasPrefix(n, "_ref_") {
			return "L" // generated labels
		}
		return n
	}}
	a := oracle.DumpWith(out, opts)
	var firstRef, firstDump string
	for i, body := range append([]string{plan.ref}, plan.alts...) {
		refSrc := c11RefSource(plan.prelude, body)
		ref := oracle.CheckSources("main", map[string]string{"ref.go": refSrc}, oracle.Importer())
		if !ref.OK() {
			// the harness's own reference must be valid Go; anything else is a harness bug
			panic(fmt.Sprintf("c11: reference does not type-check (%s): %s\n%s", head, ref.ErrText(3), refSrc))
		}
		b := oracle.DumpWith(ref, opts)
		if a == b {
			return "", "", plan, "ok"
		}
		if i == 0 {
			firstRef, firstDump = refSrc, b
		}
	}
	return "lowering-differs:" + plan.featKey(), fmt.Sprintf("%s\nthe emitted Go does not denote the documented desugaring\n--- output\n%s\n--- reference\n%s\n--- first difference\n%s", head, outSrc, firstRef, c11Diff(a, firstDump)), plan, "mismatch"
}

func (p *c11Plan) featKey() string {
	fs := append([]string(nil), p.feats...)
	sort.Strings(fs)
	return strings.Join(fs, ",")
}

func c11Diff(a, b string) string {
	x, y := firstDiff(a, b)
	return "  out: " + x + "\n  ref: " + y
}

// ---- (a) methods on builtin types -------------------------------------------------------------

const c11BTIPrelude = `package main

type MyStr string
type MyInt int
type MyI64 int64
type MyU64 uint64
type MyF64 float64
type MySS []string
type MyXS []int
type MyCh chan int

var (
	s, t string
	i, n int
	i64  int64
	u64  uint64
	f64  float64
	ss   []string
	xs   []int
	fs   []float64
	ch   chan int
	rch  <-chan string
	ms   MyStr
	mi   MyInt
	mi64 MyI64
	mu64 MyU64
	mf   MyF64
	mss  MySS
	mxs  MyXS
	mch  MyCh
	r    rune
	b    byte
)

func mkS() string { return "" }
func mkSS() []string { return nil }
`

// c11BTIMethod: receiver class, method name, user argument kinds, the documented target with the
// extra arguments that follow the user arguments, and the number of results.
type c11BTIMethod struct {
	class  string
	name   string
	args   string // one letter per user argument: s string, b byte, r rune, n int
	target string
	extra  string
	nres   int
	res    string // "bool" / "int" / "string" / "strings" / "" (other)
}

var c11BTIMethods = []c11BTIMethod{
	{"string", "Len", "", "len", "", 1, "int"},
	{"string", "Count", "s", "strings.Count", "", 1, "int"},
	{"string", "Int", "", "strconv.Atoi", "", 2, ""},
	{"string", "Int64", "", "strconv.ParseInt", "10, 64", 2, ""},
	{"string", "Uint64", "", "strconv.ParseUint", "10, 64", 2, ""},
	{"string", "Float", "", "strconv.ParseFloat", "64", 2, ""},
	{"string", "Index", "s", "strings.Index", "", 1, "int"},
	{"string", "IndexAny", "s", "strings.IndexAny", "", 1, "int"},
	{"string", "IndexByte", "b", "strings.IndexByte", "", 1, "int"},
	{"string", "IndexRune", "r", "strings.IndexRune", "", 1, "int"},
	{"string", "LastIndex", "s", "strings.LastIndex", "", 1, "int"},
	{"string", "LastIndexAny", "s", "strings.LastIndexAny", "", 1, "int"},
	{"string", "LastIndexByte", "b", "strings.LastIndexByte", "", 1, "int"},
	{"string", "Contains", "s", "strings.Contains", "", 1, "bool"},
	{"string", "ContainsAny", "s", "strings.ContainsAny", "", 1, "bool"},
	{"string", "ContainsRune", "r", "strings.ContainsRune", "", 1, "bool"},
	{"string", "Compare", "s", "strings.Compare", "", 1, "int"},
	{"string", "EqualFold", "s", "strings.EqualFold", "", 1, "bool"},
	{"string", "HasPrefix", "s", "strings.HasPrefix", "", 1, "bool"},
	{"string", "HasSuffix", "s", "strings.HasSuffix", "", 1, "bool"},
	{"string", "Quote", "", "strconv.Quote", "", 1, "string"},
	{"string", "Unquote", "", "strconv.Unquote", "", 2, ""},
	{"string", "ToTitle", "", "strings.ToTitle", "", 1, "string"},
	{"string", "ToUpper", "", "strings.ToUpper", "", 1, "string"},
	{"string", "ToLower", "", "strings.ToLower", "", 1, "string"},
	{"string", "Fields", "", "strings.Fields", "", 1, "strings"},
	{"string", "Repeat", "n", "strings.Repeat", "", 1, "string"},
	{"string", "Split", "s", "strings.Split", "", 1, "strings"},
	{"string", "SplitAfter", "s", "strings.SplitAfter", "", 1, "strings"},
	{"string", "SplitN", "sn", "strings.SplitN", "", 1, "strings"},
	{"string", "SplitAfterN", "sn", "strings.SplitAfterN", "", 1, "strings"},
	{"string", "Replace", "ssn", "strings.Replace", "", 1, "string"},
	{"string", "ReplaceAll", "ss", "strings.ReplaceAll", "", 1, "string"},
	{"string", "Trim", "s", "strings.Trim", "", 1, "string"},
	{"string", "TrimSpace", "", "strings.TrimSpace", "", 1, "string"},
	{"string", "TrimLeft", "s", "strings.TrimLeft", "", 1, "string"},
	{"string", "TrimRight", "s", "strings.TrimRight", "", 1, "string"},
	{"string", "TrimPrefix", "s", "strings.TrimPrefix", "", 1, "string"},
	{"string", "TrimSuffix", "s", "strings.TrimSuffix", "", 1, "string"},
	{"int", "String", "", "strconv.Itoa", "", 1, "string"},
	{"int64", "String", "", "strconv.FormatInt", "10", 1, "string"},
	{"uint64", "String", "", "strconv.FormatUint", "10", 1, "string"},
	{"float64", "String", "", "strconv.FormatFloat", "'g', -1, 64", 1, "string"},
	{"strings", "Len", "", "len", "", 1, "int"},
	{"strings", "Cap", "", "cap", "", 1, "int"},
	{"strings", "Join", "s", "strings.Join", "", 1, "string"},
	{"slice", "Len", "", "len", "", 1, "int"},
	{"slice", "Cap", "", "cap", "", 1, "int"},
	{"chan", "Len", "", "len", "", 1, "int"},
}

// c11Recv is a receiver expression: how to push it and its reference text. conv is the conversion
// the documentation says is inserted for a named receiver of basic underlying type.
type c11Recv struct {
	label string
	push  func(d *drive.Driver, cb *gogen.CodeBuilder)
	ref   string
}

func c11VarRecv(name, conv string) c11Recv {
	ref := name
	if conv != "" {
		ref = conv + "(" + name + ")"
	}
	label := "var"
	if conv != "" {
		label = "named-basic-var"
	}
	return c11Recv{label, func(d *drive.Driver, cb *gogen.CodeBuilder) { cb.Val(c11Obj(d, name)) }, ref}
}

func c11Receivers(class string, ch *chooser, depth int) c11Recv {
	call := func(fn string) c11Recv {
		return c11Recv{"call-result", func(d *drive.Driver, cb *gogen.CodeBuilder) { cb.Val(c11Obj(d, fn)).Call(0) }, fn + "()"}
	}
	lit := func(v any, text string) c11Recv {
		return c11Recv{"literal", func(d *drive.Driver, cb *gogen.CodeBuilder) { cb.Val(v) }, text}
	}
	var opts []c11Recv
	switch class {
	case "string":
		opts = []c11Recv{c11VarRecv("s", ""), c11VarRecv("ms", "string"), lit("abc", `"abc"`), lit("", `""`), call("mkS")}
		if depth < 2 {
			opts = append(opts, c11Recv{label: "chain"}, c11Recv{label: "index"})
		}
	case "int":
		opts = []c11Recv{c11VarRecv("i", ""), c11VarRecv("mi", "int"), lit(100, "100"), lit(-7, "-7")}
	case "int64":
		opts = []c11Recv{c11VarRecv("i64", ""), c11VarRecv("mi64", "int64")}
	case "uint64":
		opts = []c11Recv{c11VarRecv("u64", ""), c11VarRecv("mu64", "uint64")}
	case "float64":
		opts = []c11Recv{c11VarRecv("f64", ""), c11VarRecv("mf", "float64"), lit(1.5, "1.5")}
	case "strings":
		opts = []c11Recv{c11VarRecv("ss", ""), call("mkSS")}
		o := c11VarRecv("mss", "")
		o.label = "named-slice-var"
		opts = append(opts, o)
		if depth < 2 {
			opts = append(opts, c11Recv{label: "chain"})
		}
	case "slice":
		opts = []c11Recv{c11VarRecv("xs", ""), c11VarRecv("fs", "")}
		o := c11VarRecv("mxs", "")
		o.label = "named-slice-var"
		opts = append(opts, o)
	case "chan":
		opts = []c11Recv{c11VarRecv("ch", ""), c11VarRecv("rch", "")}
		o := c11VarRecv("mch", "")
		o.label = "named-chan-var"
		opts = append(opts, o)
	}
	r := opts[ch.n("recv", len(opts))]
	switch r.label {
	case "chain":
		// the receiver is itself a builtin-type method call with a result of this class
		want := "string"
		if class == "strings" {
			want = "strings"
		}
		var ms []c11BTIMethod
		for _, m := range c11BTIMethods {
			if m.res == want && m.nres == 1 {
				ms = append(ms, m)
			}
		}
		m := ms[ch.n("chain-method", len(ms))]
		inner := c11BTICall(m, ch, depth+1)
		return c11Recv{"chain", inner.push, inner.ref}
	case "index":
		return c11Recv{"index", func(d *drive.Driver, cb *gogen.CodeBuilder) { cb.Val(c11Obj(d, "ss")).Val(0).Index(1, 0) }, "ss[0]"}
	}
	return r
}

type c11Expr struct {
	push  func(d *drive.Driver, cb *gogen.CodeBuilder)
	ref   string
	feats []string
}

func c11BTIArg(kind byte, ch *chooser) c11Expr {
	v := func(name string) c11Expr {
		return c11Expr{func(d *drive.Driver, cb *gogen.CodeBuilder) { cb.Val(c11Obj(d, name)) }, name, nil}
	}
	l := func(val any, text string) c11Expr {
		return c11Expr{func(d *drive.Driver, cb *gogen.CodeBuilder) { cb.Val(val) }, text, []string{"const-arg"}}
	}
	var opts []c11Expr
	switch kind {
	case 's':
		opts = []c11Expr{v("s"), v("t"), l(",", `","`)}
	case 'b':
		opts = []c11Expr{v("b"), l('x', `'x'`), l(65, "65")}
	case 'r':
		opts = []c11Expr{v("r"), l('x', `'x'`)}
	case 'n':
		opts = []c11Expr{v("n"), v("i"), l(2, "2"), l(-1, "-1")}
	}
	return opts[ch.n("arg", len(opts))]
}

func c11BTICall(m c11BTIMethod, ch *chooser, depth int) c11Expr {
	recv := c11Receivers(m.class, ch, depth)
	var args []c11Expr
	for k := 0; k < len(m.args); k++ {
		args = append(args, c11BTIArg(m.args[k], ch))
	}
	refArgs := []string{recv.ref}
	feats := []string{"recv:" + recv.label}
	for _, a := range args {
		refArgs = append(refArgs, a.ref)
		feats = append(feats, a.feats...)
	}
	if m.extra != "" {
		refArgs = append(refArgs, m.extra)
		feats = append(feats, "extra-args")
	}
	name := m.name
	return c11Expr{
		push: func(d *drive.Driver, cb *gogen.CodeBuilder) {
			recv.push(d, cb)
			cb.MemberVal(name, 0)
			for _, a := range args {
				a.push(d, cb)
			}
			cb.Call(len(args))
		},
		ref:   m.target + "(" + strings.Join(refArgs, ", ") + ")",
		feats: feats,
	}
}

func c11PlanBTI(ch *chooser) *c11Plan {
	m := c11BTIMethods[ch.n("method", len(c11BTIMethods))]
	call := c11BTICall(m, ch, 0)
	p := &c11Plan{prelude: c11BTIPrelude, feats: append([]string{"bti"}, call.feats...)}
	forms := []string{"blank-assign", "define"}
	if m.res == "bool" || m.res == "int" {
		forms = append(forms, "if-cond", "for-cond", "switch-tag")
	}
	if m.res == "string" {
		forms = append(forms, "call-arg")
	}
	form := ch.pick("form", forms)
	p.feats = append(p.feats, "form:"+form)
	switch form {
	case "blank-assign":
		p.build = func(d *drive.Driver, cb *gogen.CodeBuilder) {
			for k := 0; k < m.nres; k++ {
				cb.VarRef(nil)
			}
			call.push(d, cb)
			cb.Assign(m.nres, 1)
		}
		p.ref = "\t" + strings.Repeat("_, ", m.nres-1) + "_ = " + call.ref + "\n"
	case "define":
		names := []string{"v", "e"}[:m.nres]
		p.build = func(d *drive.Driver, cb *gogen.CodeBuilder) {
			cb.DefineVarStart(token.NoPos, names...)
			call.push(d, cb)
			cb.EndInit(1)
			for _, n := range names {
				cb.VarRef(nil).VarVal(n).Assign(1)
			}
		}
		p.ref = "\t" + strings.Join(names, ", ") + " := " + call.ref + "\n"
		for _, n := range names {
			p.ref += "\t_ = " + n + "\n"
		}
	case "if-cond", "for-cond":
		cond := call.ref
		if m.res == "int" {
			cond += " > 0"
		}
		p.build = func(d *drive.Driver, cb *gogen.CodeBuilder) {
			if form == "if-cond" {
				cb.If()
			} else {
				cb.For()
			}
			call.push(d, cb)
			if m.res == "int" {
				cb.Val(0).BinaryOp(token.GTR)
			}
			cb.Then().End()
		}
		kw := "if"
		if form == "for-cond" {
			kw = "for"
		}
		p.ref = "\t" + kw + " " + cond + " {\n\t}\n"
	case "switch-tag":
		p.build = func(d *drive.Driver, cb *gogen.CodeBuilder) {
			cb.Switch()
			call.push(d, cb)
			cb.Then().End()
		}
		p.ref = "\tswitch " + call.ref + " {\n\t}\n"
	case "call-arg":
		p.build = func(d *drive.Driver, cb *gogen.CodeBuilder) {
			cb.VarRef(nil).Val(c11Obj(d, "len"))
			call.push(d, cb)
			cb.Call(1).Assign(1)
		}
		p.ref = "\t_ = len(" + call.ref + ")\n"
	}
	p.key = "bti:" + m.class + "." + m.name + ":" + p.ref
	p.desc = fmt.Sprintf("builtin-type method %s.%s, lowering expected:%s", m.class, m.name, p.ref)
	return p
}

// ---- (b) member access on string-keyed maps and on any ------------------------------------------

const c11MemberPrelude = `package main

type MM map[string]any

func (MM) Size() int { return 0 }

type S struct {
	M  map[string]int
	A  any
	MM MM
}

var (
	mi  map[string]int
	ma  map[string]any
	mm  map[string]map[string]string
	nm  MM
	a   any
	st  S
	ps  *S
	key string
	pm  *map[string]int
	w   int
)

func mkA() any { return nil }
func mkM() map[string]int { return nil }
func sink(v any) {}
`

// c11MemberBase: where a member chain starts; typ is "any", "int", "string" for the static element
// type after one step, or "map:<elem>" for nested maps.
type c11Base struct {
	push func(d *drive.Driver, cb *gogen.CodeBuilder)
	ref  string
	typ  string // any | map[string]int | map[string]any | map[string]map[string]string | MM
	lbl  string
}

func c11PlanMember(ch *chooser) *c11Plan {
	obj := func(name string) func(d *drive.Driver, cb *gogen.CodeBuilder) {
		return func(d *drive.Driver, cb *gogen.CodeBuilder) { cb.Val(c11Obj(d, name)) }
	}
	field := func(v, f string) func(d *drive.Driver, cb *gogen.CodeBuilder) {
		return func(d *drive.Driver, cb *gogen.CodeBuilder) { cb.Val(c11Obj(d, v)).MemberVal(f, 0) }
	}
	bases := []c11Base{
		{obj("mi"), "mi", "map[string]int", "map-var"},
		{obj("ma"), "ma", "map[string]any", "map-var"},
		{obj("mm"), "mm", "map[string]map[string]string", "map-var"},
		{obj("nm"), "nm", "MM", "named-map-var"},
		{obj("a"), "a", "any", "any-var"},
		{field("st", "M"), "st.M", "map[string]int", "field"},
		{field("st", "A"), "st.A", "any", "field"},
		{field("ps", "MM"), "ps.MM", "MM", "field"},
		{func(d *drive.Driver, cb *gogen.CodeBuilder) { cb.Val(c11Obj(d, "mkA")).Call(0) }, "mkA()", "any", "call-result"},
		{func(d *drive.Driver, cb *gogen.CodeBuilder) { cb.Val(c11Obj(d, "mkM")).Call(0) }, "mkM()", "map[string]int", "call-result"},
		{obj("pm"), "pm", "*map[string]int", "pointer-to-map"},
	}
	base := bases[ch.n("base", len(bases))]
	nsteps := 1 + ch.n("steps", 3)
	names := []string{"x", "name", "Key", "len", "type", "Size"}
	p := &c11Plan{prelude: c11MemberPrelude, feats: []string{"member", "base:" + base.lbl}}
	// Reference: walk the chain; every step on `any` first asserts map[string]any into a fresh
	// temporary in a statement placed before the statement that contains the access.
	var pre []string
	cur, typ := base.ref, base.typ
	tmp := 0
	var chain []string
	for k := 0; k < nsteps; k++ {
		name := names[ch.n("name", len(names))]
		switch typ {
		case "any":
			tmp++
			t := fmt.Sprintf("tmp%d", tmp)
			pre = append(pre, fmt.Sprintf("%s, _ := %s.(map[string]any)", t, cur))
			cur, typ = t+"["+strconv.Quote(name)+"]", "any"
			p.feats = append(p.feats, "any-step")
		case "map[string]int":
			cur, typ = cur+"["+strconv.Quote(name)+"]", "int"
		case "MM":
			if name == "Size" {
				// a method of the named map type is that method, not a key
				cur, typ = cur+".Size", "func() int"
				p.feats = append(p.feats, "named-map-method")
			} else {
				cur, typ = cur+"["+strconv.Quote(name)+"]", "any"
			}
		case "map[string]any":
			cur, typ = cur+"["+strconv.Quote(name)+"]", "any"
		case "*map[string]int":
			// Go does not index through a pointer to a map; whatever the builder makes of it has to
			// be valid Go or an error
			cur, typ = "(*"+cur+")["+strconv.Quote(name)+"]", "int"
			p.mayReject = true
		case "map[string]map[string]string":
			cur, typ = cur+"["+strconv.Quote(name)+"]", "map[string]string"
		case "map[string]string":
			cur, typ = cur+"["+strconv.Quote(name)+"]", "string"
		default: // int, string: no further member access is defined
			k = nsteps
			continue
		}
		chain = append(chain, name)
	}
	if len(chain) >= 2 {
		p.feats = append(p.feats, "chain")
	}
	forms := []string{"blank-assign", "define", "two-value", "if-cond", "for-range-body", "return-in-closure", "switch-tag", "call-arg", "for-cond", "if-init-cond", "range-over", "assign-member", "typeswitch-guard"}
	form := ch.pick("form", forms)
	p.feats = append(p.feats, "form:"+form)
	pushChain := func(d *drive.Driver, cb *gogen.CodeBuilder, lastLhs int) {
		base.push(d, cb)
		for k, name := range chain {
			lhs := 0
			if k == len(chain)-1 {
				lhs = lastLhs
			}
			cb.MemberVal(name, lhs)
		}
	}
	ind := func(lines []string, tabs string) string {
		var b strings.Builder
		for _, l := range lines {
			b.WriteString(tabs + l + "\n")
		}
		return b.String()
	}
	switch form {
	case "blank-assign":
		p.build = func(d *drive.Driver, cb *gogen.CodeBuilder) {
			cb.VarRef(nil)
			pushChain(d, cb, 0)
			cb.Assign(1)
		}
		p.ref = ind(pre, "\t") + "\t_ = " + cur + "\n"
	case "define":
		p.build = func(d *drive.Driver, cb *gogen.CodeBuilder) {
			cb.DefineVarStart(token.NoPos, "v")
			pushChain(d, cb, 0)
			cb.EndInit(1)
			cb.VarRef(nil).VarVal("v").Assign(1)
		}
		p.ref = ind(pre, "\t") + "\tv := " + cur + "\n\t_ = v\n"
	case "two-value":
		p.build = func(d *drive.Driver, cb *gogen.CodeBuilder) {
			cb.DefineVarStart(token.NoPos, "v", "ok")
			pushChain(d, cb, 2)
			cb.EndInit(1)
			cb.VarRef(nil).VarVal("v").Assign(1)
			cb.VarRef(nil).VarVal("ok").Assign(1)
		}
		p.ref = ind(pre, "\t") + "\tv, ok := " + cur + "\n\t_ = v\n\t_ = ok\n"
		if !strings.HasSuffix(cur, "]") {
			p.mayReject = true // the comma-ok form needs an index expression (not a method value)
		}
	case "if-cond":
		// `if <chain> == <zero> {}`: the assertion statements are hoisted before the if statement
		zero, zv := "nil", any(nil)
		switch typ {
		case "int":
			zero, zv = "0", 0
		case "string":
			zero, zv = `""`, ""
		}
		p.build = func(d *drive.Driver, cb *gogen.CodeBuilder) {
			cb.If()
			pushChain(d, cb, 0)
			if zv == nil {
				cb.CompareNil(token.EQL)
			} else {
				cb.Val(zv).BinaryOp(token.EQL)
			}
			cb.Then().End()
		}
		p.ref = ind(pre, "\t") + "\tif " + cur + " == " + zero + " {\n\t}\n"
		if len(pre) == 1 {
			// the same meaning with the assertion as the if statement's init clause
			p.alts = append(p.alts, "\tif "+pre[0]+"; "+cur+" == "+zero+" {\n\t}\n")
		}
		if len(pre) > 0 {
			p.feats = append(p.feats, fmt.Sprintf("hoist-%d-before-if", len(pre)))
		}
	case "for-cond":
		// a loop condition is evaluated before every iteration, and so is the assertion it needs
		zero, zv := "nil", any(nil)
		switch typ {
		case "int":
			zero, zv = "0", 0
		case "string":
			zero, zv = `""`, ""
		}
		p.build = func(d *drive.Driver, cb *gogen.CodeBuilder) {
			cb.For()
			pushChain(d, cb, 0)
			if zv == nil {
				cb.CompareNil(token.NEQ)
			} else {
				cb.Val(zv).BinaryOp(token.NEQ)
			}
			cb.Then().End()
		}
		if len(pre) == 0 {
			p.ref = "\tfor " + cur + " != " + zero + " {\n\t}\n"
		} else {
			p.ref = "\tfor {\n" + ind(pre, "\t\t") + "\t\tif !(" + cur + " != " + zero + ") {\n\t\t\tbreak\n\t\t}\n\t}\n"
			p.alts = append(p.alts, "\tfor {\n"+ind(pre, "\t\t")+"\t\tif "+cur+" == "+zero+" {\n\t\t\tbreak\n\t\t}\n\t}\n")
			p.feats = append(p.feats, fmt.Sprintf("hoist-%d-in-for-cond", len(pre)))
		}
	case "switch-tag":
		p.build = func(d *drive.Driver, cb *gogen.CodeBuilder) {
			cb.Switch()
			pushChain(d, cb, 0)
			cb.Then().End()
		}
		p.ref = ind(pre, "\t") + "\tswitch " + cur + " {\n\t}\n"
		if len(pre) == 1 {
			p.alts = append(p.alts, "\tswitch "+pre[0]+"; "+cur+" {\n\t}\n")
		}
		if len(pre) > 0 {
			p.feats = append(p.feats, fmt.Sprintf("hoist-%d-before-switch", len(pre)))
		}
	case "for-range-body":
		// inside a loop body the hoisted statements stay inside the body (evaluated every iteration)
		p.build = func(d *drive.Driver, cb *gogen.CodeBuilder) {
			cb.ForRange("k").Val(c11Obj(d, "mi")).RangeAssignThen(token.NoPos)
			cb.VarRef(nil).VarVal("k").Assign(1)
			cb.VarRef(nil)
			pushChain(d, cb, 0)
			cb.Assign(1)
			cb.End()
		}
		p.ref = "\tfor k := range mi {\n\t\t_ = k\n" + ind(pre, "\t\t") + "\t\t_ = " + cur + "\n\t}\n"
		p.feats = append(p.feats, "inside-loop-body")
	case "return-in-closure":
		rt := "any"
		switch typ {
		case "int", "string", "map[string]string":
			rt = typ
		}
		p.build = func(d *drive.Driver, cb *gogen.CodeBuilder) {
			var T types.Type
			switch typ {
			case "int":
				T = types.Typ[types.Int]
			case "string":
				T = types.Typ[types.String]
			case "map[string]string":
				T = types.NewMap(types.Typ[types.String], types.Typ[types.String])
			default:
				T = gogen.TyEmptyInterface
			}
			cb.VarRef(nil)
			cb.NewClosure(nil, types.NewTuple(types.NewParam(token.NoPos, d.Pkg.Types, "", T)), false).BodyStart(d.Pkg)
			pushChain(d, cb, 0)
			cb.Return(1).End()
			cb.Assign(1)
		}
		p.ref = "\t_ = func() " + rt + " {\n" + ind(pre, "\t\t") + "\t\treturn " + cur + "\n\t}\n"
		p.feats = append(p.feats, "inside-closure")
	case "if-init-cond":
		// if q := w; <chain> == zero && q == 0 {}: a user init statement and hoisted assertions
		zero, zv := "nil", any(nil)
		switch typ {
		case "int":
			zero, zv = "0", 0
		case "string":
			zero, zv = `""`, ""
		}
		p.build = func(d *drive.Driver, cb *gogen.CodeBuilder) {
			cb.If()
			cb.DefineVarStart(token.NoPos, "q").Val(c11Obj(d, "w")).EndInit(1)
			pushChain(d, cb, 0)
			if zv == nil {
				cb.CompareNil(token.EQL)
			} else {
				cb.Val(zv).BinaryOp(token.EQL)
			}
			cb.VarVal("q").Val(0).BinaryOp(token.EQL).BinaryOp(token.LAND)
			cb.Then().End()
		}
		cond := cur + " == " + zero + " && q == 0"
		if len(pre) == 0 {
			p.ref = "\tif q := w; " + cond + " {\n\t}\n"
		} else {
			// q keeps its scope: init statement, assertions and the if statement share a block
			p.ref = "\t{\n\t\tq := w\n" + ind(pre, "\t\t") + "\t\tif " + cond + " {\n\t\t}\n\t}\n"
			p.feats = append(p.feats, fmt.Sprintf("init-and-%d-assertions", len(pre)))
		}
	case "range-over":
		// for k := range <chain>: the assertions precede the loop (the range expression is evaluated once)
		rangeable := typ == "any" || strings.HasPrefix(typ, "map[")
		if !rangeable {
			p.mayReject = true
		}
		p.build = func(d *drive.Driver, cb *gogen.CodeBuilder) {
			cb.ForRange("k")
			pushChain(d, cb, 0)
			if typ == "any" {
				// ranging over an `any` member needs a concrete type: assert it as the sugar does
				cb.TypeAssert(types.NewMap(types.Typ[types.String], gogen.TyEmptyInterface), 0)
			}
			cb.RangeAssignThen(token.NoPos)
			cb.VarRef(nil).VarVal("k").Assign(1)
			cb.End()
		}
		x := cur
		if typ == "any" {
			x = cur + ".(map[string]any)"
		}
		p.ref = ind(pre, "\t") + "\tfor k := range " + x + " {\n\t\t_ = k\n\t}\n"
		if len(pre) > 0 {
			p.feats = append(p.feats, "hoist-before-range")
		}
	case "assign-member":
		// <chain> = value: defined when the last container is a string-keyed map
		if len(chain) == 0 {
			p.mayReject = true
		}
		last := ""
		if len(chain) > 0 {
			last = chain[len(chain)-1]
		}
		assignable := strings.HasSuffix(cur, "["+strconv.Quote(last)+"]") && !p.mayReject
		// the container of the last step: an assertion temporary (a copy of the map header, still the
		// same map) or a map expression; both are assignable in Go
		if !assignable || strings.HasPrefix(cur, "tmp") {
			// assignment through an `any` value is not part of the documented sugar
			p.mayReject = true
		}
		val, valRef := any(1), "1"
		switch typ {
		case "string":
			val, valRef = "s", `"s"`
		case "any", "int":
		default:
			val, valRef = nil, "nil"
		}
		p.build = func(d *drive.Driver, cb *gogen.CodeBuilder) {
			base.push(d, cb)
			for k, name := range chain {
				if k == len(chain)-1 {
					cb.MemberRef(name)
				} else {
					cb.MemberVal(name, 0)
				}
			}
			cb.Val(val).Assign(1)
		}
		p.ref = ind(pre, "\t") + "\t" + cur + " = " + valRef + "\n"
		p.feats = append(p.feats, "member-ref")
	case "typeswitch-guard":
		if typ != "any" {
			p.mayReject = true
		}
		p.build = func(d *drive.Driver, cb *gogen.CodeBuilder) {
			cb.TypeSwitch("")
			pushChain(d, cb, 0)
			cb.TypeAssertThen().End()
		}
		p.ref = ind(pre, "\t") + "\tswitch " + cur + ".(type) {\n\t}\n"
		if len(pre) == 1 {
			p.alts = append(p.alts, "\tswitch "+pre[0]+"; "+cur+".(type) {\n\t}\n")
		}
		if len(pre) > 0 {
			p.feats = append(p.feats, fmt.Sprintf("hoist-%d-before-typeswitch", len(pre)))
		}
	case "call-arg":
		p.build = func(d *drive.Driver, cb *gogen.CodeBuilder) {
			cb.Val(c11Obj(d, "sink"))
			pushChain(d, cb, 0)
			cb.Call(1).EndStmt()
		}
		p.ref = ind(pre, "\t") + "\tsink(" + cur + ")\n"
	}
	p.key = "member:" + p.ref
	p.desc = "member access chain " + base.ref + "." + strings.Join(chain, ".") + " (" + form + ")"
	return p
}

// ---- (c) boolean-to-number casts, T() ---------------------------------------------------------------

const c11CastPrelude = `package main

type MyInt int
type MyBool bool
type MyF float32

var (
	bv  bool
	mb  MyBool
	x, y int
)

func mkB() bool { return false }
`

func c11PlanCast(ch *chooser) *c11Plan {
	targets := []string{"int", "int8", "uint", "uint8", "int64", "uint64", "float32", "float64", "uintptr", "rune", "byte", "complex128"}
	T := ch.pick("target", targets)
	type operand struct {
		push func(d *drive.Driver, cb *gogen.CodeBuilder)
		ref  string
		lbl  string
		cst  int // -1 not constant, else 0/1
	}
	ops := []operand{
		{func(d *drive.Driver, cb *gogen.CodeBuilder) { cb.Val(c11Obj(d, "bv")) }, "bv", "bool-var", -1},
		{func(d *drive.Driver, cb *gogen.CodeBuilder) { cb.Val(c11Obj(d, "mb")) }, "mb", "named-bool-var", -1},
		{func(d *drive.Driver, cb *gogen.CodeBuilder) { cb.Val(c11Obj(d, "mkB")).Call(0) }, "mkB()", "call-result", -1},
		{func(d *drive.Driver, cb *gogen.CodeBuilder) {
			cb.Val(c11Obj(d, "x")).Val(c11Obj(d, "y")).BinaryOp(token.LSS)
		}, "x < y", "comparison", -1},
		{func(d *drive.Driver, cb *gogen.CodeBuilder) { cb.Val(c11Obj(d, "true")) }, "true", "const-true", 1},
		{func(d *drive.Driver, cb *gogen.CodeBuilder) { cb.Val(c11Obj(d, "false")) }, "false", "const-false", 0},
		{func(d *drive.Driver, cb *gogen.CodeBuilder) { cb.Val(1).Val(2).BinaryOp(token.LSS) }, "1 < 2", "const-comparison", 1},
	}
	op := ops[ch.n("operand", len(ops))]
	p := &c11Plan{prelude: c11CastPrelude, feats: []string{"cast", "operand:" + op.lbl}}
	// documented desugaring: T(b) == func() T { if b { return 1 } else { return 0 } }()
	var conv string
	if op.cst >= 0 {
		conv = fmt.Sprintf("%s(%d)", T, op.cst)
	} else {
		conv = fmt.Sprintf("func() %s {\n\t\tif %s {\n\t\t\treturn 1\n\t\t} else {\n\t\t\treturn 0\n\t\t}\n\t}()", T, op.ref)
	}
	form := ch.pick("form", []string{"define", "var-typed", "binary-operand", "call-arg"})
	p.feats = append(p.feats, "form:"+form)
	pushConv := func(d *drive.Driver, cb *gogen.CodeBuilder) {
		cb.Typ(c11Type(d, T))
		op.push(d, cb)
		cb.Call(1)
	}
	switch form {
	case "define":
		p.build = func(d *drive.Driver, cb *gogen.CodeBuilder) {
			cb.DefineVarStart(token.NoPos, "v")
			pushConv(d, cb)
			cb.EndInit(1)
			cb.VarRef(nil).VarVal("v").Assign(1)
		}
		p.ref = "\tv := " + conv + "\n\t_ = v\n"
	case "var-typed":
		p.build = func(d *drive.Driver, cb *gogen.CodeBuilder) {
			cb.NewVarStart(c11Type(d, T), "v")
			pushConv(d, cb)
			cb.EndInit(1)
			cb.VarRef(nil).VarVal("v").Assign(1)
		}
		p.ref = "\tvar v " + T + " = " + conv + "\n\t_ = v\n"
	case "binary-operand":
		p.build = func(d *drive.Driver, cb *gogen.CodeBuilder) {
			cb.DefineVarStart(token.NoPos, "v")
			pushConv(d, cb)
			pushConv(d, cb)
			cb.BinaryOp(token.ADD)
			cb.EndInit(1)
			cb.VarRef(nil).VarVal("v").Assign(1)
		}
		p.ref = "\tv := " + conv + " + " + conv + "\n\t_ = v\n"
	case "call-arg":
		p.build = func(d *drive.Driver, cb *gogen.CodeBuilder) {
			cb.Val(c11Obj(d, "sink"))
			pushConv(d, cb)
			cb.Call(1).EndStmt()
		}
		p.ref = "\tsink(" + conv + ")\n"
		p.prelude += "\nfunc sink(v any) {}\n"
	}
	if op.cst >= 0 {
		// For a constant operand the documented meaning is the constant 0/1 *of type T*. The dump of
		// `T(1)` (a conversion node) differs from a bare literal in shape, so compare meaning only:
		// the type and constant value of what reaches v / sink.
		want := p.ref
		p.after = func(out *oracle.Checked) (string, string) {
			ref := oracle.CheckSources("main", map[string]string{"ref.go": c11RefSource(p.prelude, want)}, oracle.Importer())
			if !ref.OK() {
				panic("c11 cast reference: " + ref.ErrText(2))
			}
			a, b := c11ValueFacts(out), c11ValueFacts(ref)
			if a != b {
				return "cast-const-meaning:" + p.featKey(), fmt.Sprintf("constant bool cast does not denote %s: output has %s, reference has %s", conv, a, b)
			}
			return "", ""
		}
	}
	p.key = "cast:" + T + ":" + op.lbl + ":" + form
	p.desc = "bool cast " + T + "(" + op.ref + ") in " + form
	return p
}

// c11ValueFacts: type (and constant value) of the local v, or of sink's argument, in func f.
func c11ValueFacts(c *oracle.Checked) string {
	var facts []string
	for id, obj := range c.Info.Defs {
		if v, ok := obj.(*types.Var); ok && id.Name == "v" && v.Parent() != c.Pkg.Scope() && !v.IsField() {
			facts = append(facts, "v:"+oracle.TypeKey(v.Type()))
		}
	}
	for _, f := range c.Files {
		ast.Inspect(f, func(n ast.Node) bool {
			switch x := n.(type) {
			case *ast.CallExpr:
				if id, ok := x.Fun.(*ast.Ident); ok && id.Name == "sink" && len(x.Args) == 1 {
					tv := c.Info.Types[x.Args[0]]
					facts = append(facts, "sink:"+oracle.TypeKey(defaultType(tv.Type))+"="+oracle.ConstKey(tv.Value))
				}
			case *ast.ValueSpec:
				for i, nm := range x.Names {
					if nm.Name == "v" && i < len(x.Values) {
						tv := c.Info.Types[x.Values[i]]
						facts = append(facts, "init="+oracle.ConstKey(tv.Value))
					}
				}
			case *ast.AssignStmt:
				if len(x.Lhs) == 1 && len(x.Rhs) == 1 {
					if id, ok := x.Lhs[0].(*ast.Ident); ok && id.Name == "v" {
						tv := c.Info.Types[x.Rhs[0]]
						facts = append(facts, "init="+oracle.ConstKey(tv.Value))
					}
				}
			}
			return true
		})
	}
	sort.Strings(facts)
	return strings.Join(facts, " ")
}

func defaultType(t types.Type) types.Type {
	if t == nil {
		return types.Typ[types.Invalid]
	}
	return types.Default(t)
}

// ---- (e) lower-case method aliases and auto-properties --------------------------------------------

const c11AliasPrelude = `package main

type T struct{ F int }

func (T) Name() string          { return "" }
func (T) Add(a, b int) int      { return 0 }
func (*T) SetName(s string)     {}
func (T) Pair() (int, error)    { return 0, nil }
func (T) lower() int            { return 0 }
func (T) Both() int             { return 0 }
func (T) both() string          { return "" }

type I interface {
	Get() int
	Put(v int)
}

type E struct{ T }

var (
	v  T
	p  *T
	iv I
	e  E
	s  string
	n  int
)

func mk() T { return v }
`

func c11PlanAlias(ch *chooser) *c11Plan {
	type recv struct {
		push func(d *drive.Driver, cb *gogen.CodeBuilder)
		ref  string
		lbl  string
		ifc  bool
	}
	obj := func(name string) func(d *drive.Driver, cb *gogen.CodeBuilder) {
		return func(d *drive.Driver, cb *gogen.CodeBuilder) { cb.Val(c11Obj(d, name)) }
	}
	recvs := []recv{
		{obj("v"), "v", "value", false},
		{obj("p"), "p", "pointer", false},
		{obj("e"), "e", "embedded", false},
		{obj("iv"), "iv", "interface", true},
	}
	r := recvs[ch.n("recv", len(recvs))]
	p := &c11Plan{prelude: c11AliasPrelude, feats: []string{"alias", "recv:" + r.lbl}}
	type meth struct {
		written, target string
		args            []string // reference argument texts
		nres            int
		lbl             string
	}
	var ms []meth
	if r.ifc {
		ms = []meth{
			{"get", "Get", nil, 1, "alias"},
			{"put", "Put", []string{"n"}, 0, "alias"},
			{"Get", "Get", nil, 1, "exact"},
		}
	} else {
		ms = []meth{
			{"name", "Name", nil, 1, "alias"},
			{"add", "Add", []string{"n", "2"}, 1, "alias"},
			{"setName", "SetName", []string{"s"}, 0, "alias"},
			{"pair", "Pair", nil, 2, "alias"},
			{"Name", "Name", nil, 1, "exact"},
			{"lower", "lower", nil, 1, "exact-lower"},
			{"both", "both", nil, 1, "exact-lower-shadows-alias"},
			{"Both", "Both", nil, 1, "exact"},
		}
	}
	m := ms[ch.n("method", len(ms))]
	p.feats = append(p.feats, "name:"+m.lbl)
	mode := "alias-call"
	if m.lbl == "alias" {
		if len(m.args) == 0 && m.nres == 1 && ch.n("autoprop", 2) == 1 {
			mode = "auto-property"
		}
	} else if ch.n("autoprop", 3) == 0 {
		// a name that matches a method exactly is that method: with the auto-property flag it is the
		// method value, as in Go
		mode = "auto-property-exact"
	}
	p.feats = append(p.feats, "mode:"+mode)
	call := r.ref + "." + m.target + "(" + strings.Join(m.args, ", ") + ")"
	pushCall := func(d *drive.Driver, cb *gogen.CodeBuilder) {
		r.push(d, cb)
		if mode != "alias-call" {
			cb.Member(m.written, 0, gogen.MemberFlagAutoProperty)
			return
		}
		cb.Member(m.written, 0, gogen.MemberFlagMethodAlias)
		for _, a := range m.args {
			if a == "2" {
				cb.Val(2)
			} else {
				cb.Val(c11Obj(d, a))
			}
		}
		cb.Call(len(m.args))
	}
	switch {
	case mode == "auto-property-exact":
		p.build = func(d *drive.Driver, cb *gogen.CodeBuilder) {
			cb.VarRef(nil)
			pushCall(d, cb)
			cb.Assign(1)
		}
		p.ref = "\t_ = " + r.ref + "." + m.target + "\n"
	case m.nres == 0:
		p.build = func(d *drive.Driver, cb *gogen.CodeBuilder) {
			pushCall(d, cb)
			cb.EndStmt()
		}
		p.ref = "\t" + call + "\n"
	default:
		p.build = func(d *drive.Driver, cb *gogen.CodeBuilder) {
			for k := 0; k < m.nres; k++ {
				cb.VarRef(nil)
			}
			pushCall(d, cb)
			cb.Assign(m.nres, 1)
		}
		p.ref = "\t" + strings.Repeat("_, ", m.nres-1) + "_ = " + call + "\n"
	}
	p.key = "alias:" + r.lbl + ":" + m.written + ":" + mode
	p.desc = "method " + mode + " " + r.ref + "." + m.written
	return p
}

// ---- (f) user-defined enumerators ------------------------------------------------------------------

// c11EnumPrelude: enumerable types of every documented shape. Element types are distinct so a
// key/value mix-up cannot type-check by accident.
const c11EnumPrelude = `package main

type K struct{ k int }
type V struct{ v string }

type It2 struct{}

func (It2) Next() (K, V, bool) { return K{}, V{}, false }

type It1 struct{}

func (*It1) Next() (V, bool) { return V{}, false }

type E2 struct{}

func (E2) XGo_Enum() It2 { return It2{} }

type E1 struct{}

func (*E1) XGo_Enum() *It1 { return nil }

type G2 struct{}

func (G2) Gop_Enum() It2 { return It2{} }

type F2 struct{}

func (F2) XGo_Enum() func(yield func(K, V) bool) { return nil }

type F1 struct{}

func (F1) XGo_Enum() func(yield func(V) bool) { return nil }

type F0 struct{}

func (F0) XGo_Enum() func(yield func() bool) { return nil }

type Seq func(yield func(K, V) bool)

type FN struct{}

func (*FN) XGo_Enum() Seq { return nil }

var (
	e2  E2
	e1  E1
	pe1 *E1
	g2  G2
	f2  F2
	f1  F1
	f0  F0
	fn  FN
	pfn *FN
	gk  K
	gv  V
)

func mkE2() E2 { return e2 }
`

func c11PlanEnum(ch *chooser) *c11Plan {
	type enumT struct {
		expr  string // variable or call
		call  bool
		nvals int
		style string // next | func
		enum  string // reference enumerate expression
		ptrIt bool
		lbl   string
	}
	es := []enumT{
		{"e2", false, 2, "next", "e2.XGo_Enum()", false, "next2"},
		{"mkE2", true, 2, "next", "mkE2().XGo_Enum()", false, "next2-call"},
		{"e1", false, 1, "next", "e1.XGo_Enum()", true, "next1-ptr-recv-addressable"},
		{"pe1", false, 1, "next", "pe1.XGo_Enum()", true, "next1-pointer"},
		{"g2", false, 2, "next", "g2.Gop_Enum()", false, "next2-legacy-name"},
		{"f2", false, 2, "func", "f2.XGo_Enum()", false, "func2"},
		{"f1", false, 1, "func", "f1.XGo_Enum()", false, "func1"},
		{"f0", false, 0, "func", "f0.XGo_Enum()", false, "func0"},
		{"fn", false, 2, "func", "fn.XGo_Enum()", false, "named-func2"},
		{"pfn", false, 2, "func", "pfn.XGo_Enum()", false, "named-func2-pointer"},
	}
	e := es[ch.n("enumerable", len(es))]
	p := &c11Plan{prelude: c11EnumPrelude, feats: []string{"enum", "shape:" + e.lbl}}
	// loop variable forms
	type lhsT struct {
		define bool
		names  []string // "_" allowed; for assign form: gk / gv / _
		lbl    string
	}
	var lhss []lhsT
	switch e.nvals {
	case 2:
		lhss = []lhsT{
			{true, []string{"k", "v"}, "define-k-v"}, {true, []string{"_", "v"}, "define-blank-v"}, {true, []string{"k", "_"}, "define-k-blank"},
			{true, []string{"k"}, "define-k"}, {true, nil, "none"}, {true, []string{"_", "_"}, "define-blank-blank"},
			{false, []string{"gk", "gv"}, "assign-k-v"}, {false, []string{"_", "gv"}, "assign-blank-v"}, {false, []string{"gk"}, "assign-k"},
		}
	case 1:
		lhss = []lhsT{
			{true, []string{"v"}, "define-v"}, {true, nil, "none"}, {false, []string{"gv"}, "assign-v"}, {false, []string{"_"}, "assign-blank"},
		}
		if e.style == "next" {
			// repository example: `for _, val := range bar` binds the single element to val
			lhss = append(lhss, lhsT{true, []string{"_", "v"}, "define-blank-v"})
		}
	case 0:
		lhss = []lhsT{{true, nil, "none"}}
	}
	l := lhss[ch.n("lhs", len(lhss))]
	p.feats = append(p.feats, "lhs:"+l.lbl)
	bodies := []string{"use", "break", "continue", "nested"}
	body := ch.pick("body", bodies)
	p.feats = append(p.feats, "body:"+body)

	// names bound inside the loop, in order (for `_ = name` uses)
	var used []string
	for _, n := range l.names {
		if n != "_" && l.define {
			used = append(used, n)
		}
	}
	var nested *c11Plan
	if body == "nested" {
		sub := &chooser{t: ch.t}
		if ch.t == nil {
			sub = ch
		}
		_ = sub
	}
	_ = nested
	p.build = func(d *drive.Driver, cb *gogen.CodeBuilder) {
		if l.define {
			cb.ForRange(l.names...)
		} else {
			cb.ForRange()
			for _, n := range l.names {
				if n == "_" {
					cb.VarRef(nil)
				} else {
					cb.VarRef(c11Obj(d, n))
				}
			}
		}
		if e.call {
			cb.Val(c11Obj(d, e.expr)).Call(0)
		} else {
			cb.Val(c11Obj(d, e.expr))
		}
		cb.RangeAssignThen(token.NoPos)
		for _, n := range used {
			cb.VarRef(nil).VarVal(n).Assign(1)
		}
		switch body {
		case "break":
			cb.Break(nil)
		case "continue":
			cb.If().Val(c11Obj(d, "true")).Then().Continue(nil).End()
		case "nested":
			cb.ForRange("w").Val(c11Obj(d, "f1")).RangeAssignThen(token.NoPos)
			cb.VarRef(nil).VarVal("w").Assign(1)
			cb.End()
		}
		cb.End()
	}
	var inner strings.Builder
	for _, n := range used {
		inner.WriteString("\t\t_ = " + n + "\n")
	}
	switch body {
	case "break":
		inner.WriteString("\t\tbreak\n")
	case "continue":
		inner.WriteString("\t\tif true {\n\t\t\tcontinue\n\t\t}\n")
	case "nested":
		inner.WriteString("\t\tfor w := range f1.XGo_Enum() {\n\t\t\t_ = w\n\t\t}\n")
	}
	if e.style == "func" {
		// iterator-function style: an ordinary range over the function value
		head := "for range " + e.enum
		if len(l.names) > 0 {
			op := " = "
			if l.define {
				for _, n := range l.names {
					if n != "_" {
						op = " := " // a range clause that declares nothing has to assign
					}
				}
			}
			head = "for " + strings.Join(l.names, ", ") + op + "range " + e.enum
		}
		p.ref = "\t" + head + " {\n" + inner.String() + "\t}\n"
	} else {
		// Next style: for it := v.XGo_Enum(); ; { var ok bool; <lhs>, ok (:)= it.Next(); if !ok { break }; body }
		names := append([]string(nil), l.names...)
		if e.nvals == 1 && len(names) == 2 {
			names = names[1:] // `for _, v := range e1` binds the element to v
		}
		for len(names) < e.nvals {
			names = append(names, "_")
		}
		op := " = "
		if l.define {
			for _, n := range names {
				if n != "_" {
					op = " := "
				}
			}
		}
		p.ref = "\tfor it := " + e.enum + "; ; {\n\t\tvar ok bool\n\t\t" + strings.Join(names, ", ") + ", ok" + op + "it.Next()\n\t\tif !ok {\n\t\t\tbreak\n\t\t}\n" + inner.String() + "\t}\n"
	}
	p.key = "enum:" + e.lbl + ":" + l.lbl + ":" + body
	p.desc = "range over enumerator " + e.lbl + " with " + l.lbl + ", body " + body
	return p
}

// ---- (h) big-number literals -------------------------------------------------------------------------

const c11BigPrelude = `package main
`

func c11PlanBig(ch *chooser) *c11Plan {
	// value: sign * (digits built from chooser), around the int64 / uint64 / 128-bit boundaries
	mkInt := func(label string) *big.Int {
		bases := []string{"0", "1", "9223372036854775807", "9223372036854775808", "18446744073709551615", "18446744073709551616",
			"340282366920938463463374607431768211456", "1000000000000000000000000000000", "7", "255"}
		v, _ := new(big.Int).SetString(ch.pick(label+"-base", bases), 10)
		delta := int64(ch.n(label+"-delta", 5)) - 2
		v.Add(v, big.NewInt(delta))
		if ch.n(label+"-neg", 2) == 1 {
			v.Neg(v)
		}
		if ch.n(label+"-scale", 4) == 0 {
			v.Mul(v, big.NewInt(1000003))
		}
		return v
	}
	p := &c11Plan{prelude: c11BigPrelude, xgo: true, feats: []string{"big"}}
	kind := ch.pick("kind", []string{"int", "rat"})
	var want *big.Rat
	var push func(cb *gogen.CodeBuilder)
	if kind == "int" {
		v := mkInt("v")
		want = new(big.Rat).SetInt(v)
		push = func(cb *gogen.CodeBuilder) { cb.UntypedBigInt(v) }
		if v.IsInt64() {
			p.feats = append(p.feats, "fits-int64")
		} else {
			p.feats = append(p.feats, "beyond-int64")
		}
	} else {
		a, b := mkInt("num"), mkInt("den")
		if b.Sign() == 0 {
			b = big.NewInt(3)
		}
		r := new(big.Rat).SetFrac(a, b)
		want = r
		push = func(cb *gogen.CodeBuilder) { cb.UntypedBigRat(r) }
		if r.Num().IsInt64() && r.Denom().IsInt64() {
			p.feats = append(p.feats, "fits-int64")
		} else {
			p.feats = append(p.feats, "beyond-int64")
		}
		if r.IsInt() {
			p.feats = append(p.feats, "integral-rat")
		}
	}
	p.feats = append(p.feats, "kind:"+kind)
	p.build = func(d *drive.Driver, cb *gogen.CodeBuilder) {
		cb.DefineVarStart(token.NoPos, "v")
		push(cb)
		cb.EndInit(1)
		cb.VarRef(nil).VarVal("v").Assign(1)
	}
	p.after = func(out *oracle.Checked) (string, string) {
		// find `v := <expr>` in f and evaluate <expr> with math/big
		var init ast.Expr
		for _, f := range out.Files {
			ast.Inspect(f, func(n ast.Node) bool {
				if as, ok := n.(*ast.AssignStmt); ok && as.Tok == token.DEFINE && len(as.Lhs) == 1 && init == nil {
					if id, ok := as.Lhs[0].(*ast.Ident); ok && id.Name == "v" {
						init = as.Rhs[0]
					}
				}
				return init == nil
			})
		}
		if init == nil {
			return "big-no-init:" + kind, "no `v := ...` statement in the output"
		}
		got, err := c11EvalBig(out, init)
		if err != nil {
			return "big-unevaluable:" + kind, "cannot evaluate the emitted literal: " + err.Error()
		}
		if got.Cmp(want) != 0 {
			return "big-value:" + p.featKey(), fmt.Sprintf("literal %s evaluates to %s", want.RatString(), got.RatString())
		}
		// the static type must be the big-number type of the written kind
		tv := out.Info.Types[init]
		tk := oracle.TypeKey(tv.Type)
		wantT := "bigint"
		if kind == "rat" {
			wantT = "bigrat"
		}
		if !strings.Contains(strings.ToLower(tk), wantT) && !strings.Contains(tk, "big.Int") && !strings.Contains(tk, "big.Rat") {
			return "big-type:" + kind, "the emitted literal has type " + tk
		}
		return "", ""
	}
	p.key = "big:" + kind + ":" + want.RatString()
	p.desc = "big " + kind + " literal " + want.RatString()
	return p
}

// c11EvalBig evaluates the handful of expression shapes a big literal may lower to, with math/big:
// conversions/wrappers T(x), big.NewInt(n), big.NewRat(a, b), new(big.Int)/new(big.Rat) method
// chains SetString / SetFrac / SetInt, and a closure `func() *T { v, _ := <expr>; return v }()`.
func c11EvalBig(c *oracle.Checked, e ast.Expr) (*big.Rat, error) {
	e = ast.Unparen(e)
	switch x := e.(type) {
	case *ast.BasicLit:
		tv := c.Info.Types[x]
		if tv.Value == nil {
			return nil, fmt.Errorf("literal without value")
		}
		if x.Kind == token.STRING {
			return nil, fmt.Errorf("string literal")
		}
		r, ok := new(big.Rat).SetString(tv.Value.ExactString())
		if !ok {
			return nil, fmt.Errorf("bad literal %s", tv.Value.ExactString())
		}
		return r, nil
	case *ast.UnaryExpr:
		if x.Op == token.SUB {
			r, err := c11EvalBig(c, x.X)
			if err != nil {
				return nil, err
			}
			return r.Neg(r), nil
		}
	case *ast.CallExpr:
		// closure call
		if fl, ok := ast.Unparen(x.Fun).(*ast.FuncLit); ok && len(x.Args) == 0 {
			env := map[string]*big.Rat{}
			for _, st := range fl.Body.List {
				switch s := st.(type) {
				case *ast.AssignStmt:
					if len(s.Rhs) != 1 {
						return nil, fmt.Errorf("closure: unsupported assignment")
					}
					r, err := c11EvalBig(c, s.Rhs[0])
					if err != nil {
						return nil, err
					}
					if id, ok := s.Lhs[0].(*ast.Ident); ok {
						env[id.Name] = r
					}
				case *ast.ReturnStmt:
					if len(s.Results) != 1 {
						return nil, fmt.Errorf("closure: unsupported return")
					}
					if id, ok := s.Results[0].(*ast.Ident); ok {
						if r, ok := env[id.Name]; ok {
							return r, nil
						}
					}
					return c11EvalBig(c, s.Results[0])
				default:
					return nil, fmt.Errorf("closure: unsupported statement %T", st)
				}
			}
			return nil, fmt.Errorf("closure without return")
		}
		// conversion / wrapper
		if tv, ok := c.Info.Types[x.Fun]; ok && tv.IsType() && len(x.Args) == 1 {
			return c11EvalBig(c, x.Args[0])
		}
		if sel, ok := x.Fun.(*ast.SelectorExpr); ok {
			if id, ok := sel.X.(*ast.Ident); ok {
				if pn, ok := c.Info.Uses[id].(*types.PkgName); ok && pn.Imported().Path() == "math/big" {
					switch sel.Sel.Name {
					case "NewInt":
						return c11EvalBig(c, x.Args[0])
					case "NewRat":
						a, err := c11EvalBig(c, x.Args[0])
						if err != nil {
							return nil, err
						}
						b, err := c11EvalBig(c, x.Args[1])
						if err != nil {
							return nil, err
						}
						if b.Sign() == 0 {
							return nil, fmt.Errorf("NewRat with zero denominator")
						}
						return a.Quo(a, b), nil
					}
					return nil, fmt.Errorf("big.%s", sel.Sel.Name)
				}
				if pn, ok := c.Info.Uses[id].(*types.PkgName); ok && strings.HasSuffix(pn.Imported().Path(), "/internal/builtin") && len(x.Args) == 1 {
					// internal/builtin/big.go: XGo_bigint_Init__1(x *big.Int) and XGo_bigrat_Init__2(x *big.Rat)
					// wrap x unchanged; XGo_bigint_Init__0 / XGo_bigrat_Init__0 take an int;
					// XGo_bigrat_Init__1 takes an untyped_bigint; XGo_bigint_Init__2 takes an integral *big.Rat
					switch sel.Sel.Name {
					case "XGo_bigint_Init__0", "XGo_bigint_Init__1", "XGo_bigrat_Init__0", "XGo_bigrat_Init__1", "XGo_bigrat_Init__2":
						return c11EvalBig(c, x.Args[0])
					case "XGo_bigint_Init__2":
						r, err := c11EvalBig(c, x.Args[0])
						if err == nil && !r.IsInt() {
							err = fmt.Errorf("XGo_bigint_Init__2 of a non-integer panics at run time")
						}
						return r, err
					}
					return nil, fmt.Errorf("builtin.%s", sel.Sel.Name)
				}
			}
			// method on new(big.T)
			switch sel.Sel.Name {
			case "SetString":
				if len(x.Args) == 2 {
					tv := c.Info.Types[x.Args[0]]
					bv := c.Info.Types[x.Args[1]]
					if tv.Value != nil && tv.Value.Kind() == constant.String && bv.Value != nil {
						base, _ := constant.Int64Val(bv.Value)
						v, ok := new(big.Int).SetString(constant.StringVal(tv.Value), int(base))
						if !ok {
							return nil, fmt.Errorf("SetString(%q) fails at run time", constant.StringVal(tv.Value))
						}
						return new(big.Rat).SetInt(v), nil
					}
				}
			case "SetFrac":
				if len(x.Args) == 2 {
					a, err := c11EvalBig(c, x.Args[0])
					if err != nil {
						return nil, err
					}
					b, err := c11EvalBig(c, x.Args[1])
					if err != nil {
						return nil, err
					}
					if b.Sign() == 0 {
						return nil, fmt.Errorf("SetFrac with zero denominator")
					}
					if !a.IsInt() || !b.IsInt() {
						return nil, fmt.Errorf("SetFrac of non-integers")
					}
					return a.Quo(a, b), nil
				}
			case "SetInt":
				if len(x.Args) == 1 {
					return c11EvalBig(c, x.Args[0])
				}
			}
			return nil, fmt.Errorf("method %s", sel.Sel.Name)
		}
		if id, ok := x.Fun.(*ast.Ident); ok && len(x.Args) == 1 {
			// wrapper function such as an XGo cast helper taking the big value unchanged
			_ = id
			return c11EvalBig(c, x.Args[0])
		}
	}
	return nil, fmt.Errorf("unsupported expression %T", e)
}


// ---- tuples: struct types with ordinal fields X_0, X_1, ... and optional field names -------------

// c11PlanTuple: a tuple type is a struct whose fields are X_0, X_1, ...; members are read and
// assigned by ordinal (a.0) or, for a tuple created with names, by name (a.y); a tuple literal and
// the cast T(v0, v1) of a named tuple type are struct literals.
func c11PlanTuple(ch *chooser) *c11Plan {
	p := &c11Plan{feats: []string{"tuple"}}
	p.builderPrelude = "package main\n\nvar w int\n"
	p.prelude = "package main\n\nvar w int\n\ntype Point struct {\n\tX_0 int\n\tX_1 string\n}\n"
	var tup *types.Struct
	p.declare = func(d *drive.Driver) {
		pkg := d.Pkg
		mk := func() *types.Struct {
			return pkg.NewTuple(true, types.NewField(token.NoPos, pkg.Types, "x", types.Typ[types.Int], false), types.NewField(token.NoPos, pkg.Types, "y", types.Typ[types.String], false))
		}
		tup = mk()
		pkg.NewType("Point").InitType(pkg, mk())
	}
	recv := ch.pick("recv", []string{"unnamed", "named", "pointer"})
	op := ch.pick("op", []string{"read-name", "read-ordinal", "assign-name", "assign-ordinal", "literal", "cast", "read-both"})
	fld := ch.n("field", 2)
	p.feats = append(p.feats, "recv:"+recv, "op:"+op)
	name := []string{"x", "y"}[fld]
	ord := []string{"0", "1"}[fld]
	gofld := []string{"X_0", "X_1"}[fld]
	val, valRef := any(1), "1"
	if fld == 1 {
		val, valRef = "s", `"s"`
	}
	decl := map[string]string{"unnamed": "\tvar a struct {\n\t\tX_0 int\n\t\tX_1 string\n\t}\n", "named": "\tvar a Point\n", "pointer": "\tvar a *Point\n"}[recv]
	declare := func(d *drive.Driver, cb *gogen.CodeBuilder) {
		switch recv {
		case "unnamed":
			cb.NewVar(tup, "a")
		case "named":
			cb.NewVar(c11Type(d, "Point"), "a")
		default:
			cb.NewVar(types.NewPointer(c11Type(d, "Point")), "a")
		}
	}
	switch op {
	case "read-name", "read-ordinal", "read-both":
		p.build = func(d *drive.Driver, cb *gogen.CodeBuilder) {
			declare(d, cb)
			m := name
			if op == "read-ordinal" {
				m = ord
			}
			cb.VarRef(nil).VarVal("a").MemberVal(m, 0).Assign(1)
			if op == "read-both" {
				cb.VarRef(nil).VarVal("a").MemberVal(ord, 0).Assign(1)
			}
		}
		p.ref = decl + "\t_ = a." + gofld + "\n"
		if op == "read-both" {
			p.ref += "\t_ = a." + gofld + "\n"
		}
	case "assign-name", "assign-ordinal":
		p.build = func(d *drive.Driver, cb *gogen.CodeBuilder) {
			declare(d, cb)
			m := name
			if op == "assign-ordinal" {
				m = ord
			}
			cb.VarVal("a").MemberRef(m).Val(val).Assign(1)
		}
		p.ref = decl + "\ta." + gofld + " = " + valRef + "\n"
	case "literal":
		p.build = func(d *drive.Driver, cb *gogen.CodeBuilder) {
			cb.VarRef(nil).Val(1).Val("s").TupleLit(nil, 2).Assign(1)
		}
		p.ref = "\t_ = struct {\n\t\tX_0 int\n\t\tX_1 string\n\t}{1, \"s\"}\n"
	default:
		p.build = func(d *drive.Driver, cb *gogen.CodeBuilder) {
			cb.VarRef(nil).Typ(c11Type(d, "Point")).Val(1).Val("s").Call(2).Assign(1)
		}
		p.ref = "\t_ = Point{1, \"s\"}\n"
	}
	p.key = "tuple:" + recv + ":" + op + ":" + ord
	p.desc = "tuple " + op + " field " + ord + " on a " + recv + " tuple"
	return p
}

// ---- (d) optional parameters, (g) inline closures: see below ----------------------------------------

const c11OptPrelude = `package main

type T struct{ F int }
type MyInt int
type MyS []string
type St interface{ String() string }

var (
	vi   int
	vs   string
	vb   bool
	vf   float64
	vxs  []int
	vm   map[string]int
	vp   *T
	vt   T
	va   any
	ve   error
	vfn  func()
	vmi  MyInt
	varr [2]int
	vch  chan int
	vms  MyS
	vc   complex128
	vr   rune
	vst  St
	recv T
)
`

type c11OptType struct{ typ, v, zero string }

var c11OptTypes = []c11OptType{
	{"int", "vi", "0"}, {"string", "vs", `""`}, {"bool", "vb", "false"}, {"float64", "vf", "0"}, {"[]int", "vxs", "nil"},
	{"map[string]int", "vm", "nil"}, {"*T", "vp", "nil"}, {"T", "vt", "T{}"}, {"any", "va", "nil"}, {"error", "ve", "nil"},
	{"func()", "vfn", "nil"}, {"MyInt", "vmi", "0"}, {"[2]int", "varr", "[2]int{}"}, {"chan int", "vch", "nil"}, {"MyS", "vms", "nil"},
	{"complex128", "vc", "0"}, {"rune", "vr", "0"}, {"St", "vst", "nil"},
}

// c11OptExtPath: a package whose functions mark optional parameters by name (the convention for
// parameters of other packages)
const c11OptExtPath = "example.com/verif/optext"

func init() {
	oracle.RegisterSource(c11OptExtPath, `package optext

type T struct{ F int }

func F1(a int, __xgo_optional_b string)                       {}
func F2(__xgo_optional_a int, __xgo_optional_b *T, c ...int)  {}
func F3(a string, __xgo_optional_b T, __xgo_optional_c []int) int { return 0 }
func (T) M(a int, __xgo_optional_b map[string]int, __xgo_optional_e error) {}

var V T
`)
}

// ---- (d) optional parameters ----------------------------------------------------------------------

func c11PlanOptional(ch *chooser) *c11Plan {
	p := &c11Plan{prelude: c11OptPrelude, feats: []string{"optional"}}
	if ch.n("imported", 4) == 0 {
		return c11PlanOptionalImported(ch, p)
	}
	npos := ch.n("npos", 3)
	nopt := 1 + ch.n("nopt", 3)
	variadic := ch.n("variadic", 3) == 0
	method := ch.n("method", 3) == 0
	results := ch.n("results", 3) // 0: none, 1: int, 2: (int, error)
	var ts []c11OptType
	for k := 0; k < npos+nopt; k++ {
		ts = append(ts, c11OptTypes[ch.n("ptype", len(c11OptTypes))])
	}
	// declaration (reference source text, and builder calls)
	var decl []string
	for k, t := range ts {
		name := fmt.Sprintf("p%d", k)
		if k >= npos {
			name = "__xgo_optional_" + name
		}
		decl = append(decl, name+" "+t.typ)
	}
	if variadic {
		decl = append(decl, "rest ...int")
	}
	resText := [...]string{"", " int", " (int, error)"}[results]
	retText := [...]string{"", "\treturn 0\n", "\treturn 0, nil\n"}[results]
	recvText := ""
	if method {
		recvText = "(T) "
	}
	p.prelude += "\nfunc " + recvText + "opt(" + strings.Join(decl, ", ") + ")" + resText + " {\n" + retText + "}\n"
	// the call
	nargs := npos + ch.n("nargs", nopt+1)
	nvar := 0
	if variadic && nargs == npos+nopt {
		nvar = ch.n("nvariadic", 3)
	}
	bad := ""
	switch ch.n("bad", 12) {
	case 0:
		if npos > 0 {
			nargs, nvar, bad = npos-1, 0, "too-few"
		}
	case 1:
		if !variadic {
			nargs, bad = npos+nopt+1, "too-many"
		}
	}
	var argRefs []string
	constArg := ch.n("constarg", 3) == 0
	argVals := make([]any, 0, nargs)
	for k := 0; k < nargs; k++ {
		if k >= len(ts) {
			argRefs = append(argRefs, "vi")
			argVals = append(argVals, "vi")
			continue
		}
		t := ts[k]
		switch {
		case constArg && t.typ == "int":
			argRefs, argVals = append(argRefs, "7"), append(argVals, 7)
		case constArg && t.typ == "string":
			argRefs, argVals = append(argRefs, `"x"`), append(argVals, "\"x\"")
		default:
			argRefs, argVals = append(argRefs, t.v), append(argVals, t.v)
		}
	}
	refArgs := append([]string(nil), argRefs...)
	for k := nargs; k < len(ts); k++ {
		refArgs = append(refArgs, ts[k].zero)
	}
	for k := 0; k < nvar; k++ {
		refArgs = append(refArgs, "vi")
	}
	callee := "opt"
	if method {
		callee = "recv.opt"
	}
	call := callee + "(" + strings.Join(refArgs, ", ") + ")"
	p.feats = append(p.feats, fmt.Sprintf("omitted:%d", len(ts)-nargs))
	if variadic {
		p.feats = append(p.feats, "variadic-tail")
	}
	if method {
		p.feats = append(p.feats, "method")
	}
	if bad != "" {
		p.feats = append(p.feats, "bad:"+bad)
		p.mayReject = true // Go semantics: too few positional / too many arguments is an error
	}
	nres := results
	p.build = func(d *drive.Driver, cb *gogen.CodeBuilder) {
		for k := 0; k < nres; k++ {
			cb.VarRef(nil)
		}
		if method {
			cb.Val(c11Obj(d, "recv")).MemberVal("opt", 0)
		} else {
			cb.Val(c11Obj(d, "opt"))
		}
		for _, a := range argVals {
			switch v := a.(type) {
			case int:
				cb.Val(v)
			case string:
				if strings.HasPrefix(v, "\"") {
					cb.Val(strings.Trim(v, "\""))
				} else {
					cb.Val(c11Obj(d, v))
				}
			}
		}
		for k := 0; k < nvar; k++ {
			cb.Val(c11Obj(d, "vi"))
		}
		cb.Call(len(argVals) + nvar)
		if nres == 0 {
			cb.EndStmt()
		} else {
			cb.Assign(nres, 1)
		}
	}
	// the function itself has to be declared through the builder: the optional mark of a parameter of
	// the package being built is not part of its Go declaration
	declare := func(d *drive.Driver) {
		pkg := d.Pkg
		var params []*types.Var
		for k, t := range ts {
			params = append(params, pkg.NewParam(token.NoPos, fmt.Sprintf("p%d", k), c11TypeExpr(d, t.typ), k >= npos))
		}
		if variadic {
			params = append(params, pkg.NewParam(token.NoPos, "rest", types.NewSlice(types.Typ[types.Int]), false))
		}
		var res []*types.Var
		if results >= 1 {
			res = append(res, types.NewParam(token.NoPos, pkg.Types, "", types.Typ[types.Int]))
		}
		if results == 2 {
			res = append(res, types.NewParam(token.NoPos, pkg.Types, "", gogen.TyError))
		}
		var rv *types.Var
		if method {
			rv = types.NewParam(token.NoPos, pkg.Types, "", c11Type(d, "T"))
		}
		fb := pkg.NewFunc(rv, "opt", types.NewTuple(params...), types.NewTuple(res...), variadic).BodyStart(pkg)
		switch results {
		case 1:
			fb.Val(0).Return(1)
		case 2:
			fb.Val(0).Val(nil).Return(2)
		}
		fb.End()
	}
	p.declare = declare
	// the prelude given to the builder must not contain opt (it is declared by `declare`)
	p.builderPrelude = c11OptPrelude
	if nres == 0 {
		p.ref = "\t" + call + "\n"
	} else {
		p.ref = "\t" + strings.Repeat("_, ", nres-1) + "_ = " + call + "\n"
	}
	p.key = "optional:" + strings.Join(decl, ",") + ":" + call
	p.desc = "call of func " + recvText + "opt(" + strings.Join(decl, ", ") + ")" + resText + " as " + callee + "(" + strings.Join(argRefs, ", ") + ")"
	return p
}

func boolInt(b bool) int {
	if b {
		return 1
	}
	return 0
}

// c11TypeExpr evaluates a type expression text in the package being built.
func c11TypeExpr(d *drive.Driver, text string) types.Type {
	tv, err := types.Eval(token.NewFileSet(), d.Pkg.Types, token.NoPos, text)
	if err != nil {
		panic("c11TypeExpr " + text + ": " + err.Error())
	}
	return tv.Type
}

func c11PlanOptionalImported(ch *chooser, p *c11Plan) *c11Plan {
	p.prelude = "package main\n\nimport \"" + c11OptExtPath + "\"\n\nvar (\n\tvi int\n\tvs string\n\tvp *optext.T\n\tvt optext.T\n\tvxs []int\n\tvm map[string]int\n\tve error\n)\n"
	type fnT struct {
		name   string
		method bool
		params []c11OptType
		npos   int
		varia  bool
		nres   int
	}
	fns := []fnT{
		{"F1", false, []c11OptType{{"int", "vi", "0"}, {"string", "vs", `""`}}, 1, false, 0},
		{"F2", false, []c11OptType{{"int", "vi", "0"}, {"*optext.T", "vp", "nil"}}, 0, true, 0},
		{"F3", false, []c11OptType{{"string", "vs", `""`}, {"optext.T", "vt", "optext.T{}"}, {"[]int", "vxs", "nil"}}, 1, false, 1},
		{"M", true, []c11OptType{{"int", "vi", "0"}, {"map[string]int", "vm", "nil"}, {"error", "ve", "nil"}}, 1, false, 0},
	}
	fn := fns[ch.n("fn", len(fns))]
	nargs := fn.npos + ch.n("nargs", len(fn.params)-fn.npos+1)
	nvar := 0
	if fn.varia && nargs == len(fn.params) {
		nvar = ch.n("nvariadic", 3)
	}
	var refArgs []string
	for k, t := range fn.params {
		if k < nargs {
			refArgs = append(refArgs, t.v)
		} else {
			refArgs = append(refArgs, t.zero)
		}
	}
	for k := 0; k < nvar; k++ {
		refArgs = append(refArgs, "vi")
	}
	callee := "optext." + fn.name
	if fn.method {
		callee = "optext.V.M"
	}
	call := callee + "(" + strings.Join(refArgs, ", ") + ")"
	p.feats = append(p.feats, "imported", fmt.Sprintf("omitted:%d", len(fn.params)-nargs))
	p.build = func(d *drive.Driver, cb *gogen.CodeBuilder) {
		ext := d.Pkg.Import(c11OptExtPath)
		if fn.nres == 1 {
			cb.VarRef(nil)
		}
		if fn.method {
			cb.Val(ext.Ref("V")).MemberVal("M", 0)
		} else {
			cb.Val(ext.Ref(fn.name))
		}
		for k := 0; k < nargs; k++ {
			cb.Val(c11Obj(d, fn.params[k].v))
		}
		for k := 0; k < nvar; k++ {
			cb.Val(c11Obj(d, "vi"))
		}
		cb.Call(nargs + nvar)
		if fn.nres == 1 {
			cb.Assign(1)
		} else {
			cb.EndStmt()
		}
	}
	if fn.nres == 1 {
		p.ref = "\t_ = " + call + "\n"
	} else {
		p.ref = "\t" + call + "\n"
	}
	p.key = "optional-imported:" + call
	p.desc = "call of imported " + callee + " with " + fmt.Sprint(nargs) + " arguments"
	return p
}

// ---- (g) inline closure calls ----------------------------------------------------------------------

const c11InlinePrelude = `package main

var (
	vi, vj int
	vs     string
	vb     bool
	vxs    []int
)

func mkI() int    { return 0 }
func mkS() string { return "" }
func sinkI(v int) {}
func sinkS(v string) {}
`

// c11PlanInline: func(params) results { body }(args) written with CallInlineClosureStart. The
// documented lowering (codebuild.go, and the examples in package_test.go): one variable per result
// declared before a block; inside the block one variable per parameter initialised with its
// argument (the variadic tail as one slice literal, or the spread slice itself); the body, with
// `return e...` replaced by an assignment to the result variables and a jump to a label at the
// end of the block; the value of the call is the result variables.
func c11PlanInline(ch *chooser) *c11Plan {
	p := &c11Plan{prelude: c11InlinePrelude, feats: []string{"inline"}}
	type ty struct{ name, v, lit, call, zero string }
	tys := []ty{{"int", "vi", "7", "mkI()", "0"}, {"string", "vs", `"s"`, "mkS()", `""`}}
	nparams := ch.n("nparams", 3)
	var ptypes []ty
	for k := 0; k < nparams; k++ {
		ptypes = append(ptypes, tys[ch.n("ptype", 2)])
	}
	variadic := ch.n("variadic", 3) == 0
	nres := ch.n("nres", 3)
	var rtypes []ty
	for k := 0; k < nres; k++ {
		rtypes = append(rtypes, tys[ch.n("rtype", 2)])
	}
	// arguments
	type arg struct {
		ref  string
		kind string // var lit call
	}
	var args []arg
	pure := true
	for _, t := range ptypes {
		switch ch.n("argkind", 3) {
		case 0:
			args = append(args, arg{t.v, "var"})
		case 1:
			args = append(args, arg{t.lit, "lit"})
		default:
			args = append(args, arg{t.call, "call"})
			pure = false
		}
	}
	spread := false
	nvar := 0
	if variadic {
		if ch.n("spread", 3) == 0 {
			spread = true
		} else {
			nvar = ch.n("nvariadic", 3)
		}
	}
	body := ch.pick("body", []string{"return", "early-return", "use-then-return"})
	ctx := "stmt"
	switch nres {
	case 1:
		ctx = ch.pick("ctx", []string{"define", "call-arg", "binary"})
	case 2:
		ctx = "define2"
	}
	p.feats = append(p.feats, fmt.Sprintf("params:%d", nparams), fmt.Sprintf("results:%d", nres), "body:"+body, "ctx:"+ctx)
	if variadic {
		if spread {
			p.feats = append(p.feats, "variadic-spread")
		} else {
			p.feats = append(p.feats, fmt.Sprintf("variadic:%d", nvar))
		}
	}
	if !pure && nparams+boolInt(variadic) >= 2 {
		p.feats = append(p.feats, "two-args-one-with-side-effect")
	}
	hasArgs := nparams > 0 || (variadic && (spread || nvar > 0))
	if body == "use-then-return" && (nparams > 0 || variadic) {
		p.feats = append(p.feats, "body-expr-stmt")
		if hasArgs {
			p.feats = append(p.feats, "body-expr-stmt-with-args")
		}
	}
	// result expression k inside the body: parameter of the same type if any, else a literal
	resExpr := func(k int) (ref string, param int) {
		for i, t := range ptypes {
			if t.name == rtypes[k].name {
				return fmt.Sprintf("a%d", i), i
			}
		}
		return rtypes[k].lit, -1
	}
	// --- reference
	mkRef := func(reverse bool, retForm int) string {
		var b strings.Builder
		for k, t := range rtypes {
			fmt.Fprintf(&b, "\tvar r%d %s\n", k, t.name)
		}
		b.WriteString("\t{\n")
		var decls []string
		for k, t := range ptypes {
			decls = append(decls, fmt.Sprintf("\t\tvar a%d %s = %s\n", k, t.name, args[k].ref))
		}
		if variadic {
			if spread {
				decls = append(decls, "\t\tvar rest []int = vxs\n")
			} else {
				decls = append(decls, "\t\tvar rest []int = []int{"+strings.TrimSuffix(strings.Repeat("vj, ", nvar), ", ")+"}\n")
			}
		}
		if reverse {
			for i, j := 0, len(decls)-1; i < j; i, j = i+1, j-1 {
				decls[i], decls[j] = decls[j], decls[i]
			}
		}
		for _, d := range decls {
			b.WriteString(d)
		}
		ret := func(ind string, zero bool) {
			if nres > 0 {
				var l, r []string
				for k := range rtypes {
					l = append(l, fmt.Sprintf("r%d", k))
					if zero {
						r = append(r, rtypes[k].zero)
					} else {
						e, _ := resExpr(k)
						r = append(r, e)
					}
				}
				switch retForm {
				case 0: // one tuple assignment
					b.WriteString(ind + strings.Join(l, ", ") + " = " + strings.Join(r, ", ") + "\n")
				case 1: // one assignment per result, first to last
					for k := range l {
						b.WriteString(ind + l[k] + " = " + r[k] + "\n")
					}
				default: // last to first
					for k := len(l) - 1; k >= 0; k-- {
						b.WriteString(ind + l[k] + " = " + r[k] + "\n")
					}
				}
			}
			b.WriteString(ind + "goto _ref_L\n")
		}
		for k, t := range ptypes {
			if body == "use-then-return" {
				if t.name == "int" {
					fmt.Fprintf(&b, "\t\tsinkI(a%d)\n", k)
				} else {
					fmt.Fprintf(&b, "\t\tsinkS(a%d)\n", k)
				}
			}
		}
		if variadic && body == "use-then-return" {
			b.WriteString("\t\tsinkI(len(rest))\n")
		}
		if body == "early-return" {
			b.WriteString("\t\tif vb {\n")
			ret("\t\t\t", true)
			b.WriteString("\t\t}\n")
		}
		ret("\t\t", false)
		b.WriteString("\t_ref_L:\n\t}\n")
		switch ctx {
		case "define":
			b.WriteString("\tv := r0\n\t_ = v\n")
		case "define2":
			b.WriteString("\tv, w := r0, r1\n\t_ = v\n\t_ = w\n")
		case "call-arg":
			if rtypes[0].name == "int" {
				b.WriteString("\tsinkI(r0)\n")
			} else {
				b.WriteString("\tsinkS(r0)\n")
			}
		case "binary":
			b.WriteString("\tv := r0 + r0\n\t_ = v\n")
		}
		return b.String()
	}
	// The result expressions of the generated bodies are parameters and literals, so how the results
	// are assigned (together or one by one, in either order) does not change the meaning; without
	// side effects in the arguments neither does the order in which the parameters are bound.
	p.ref = mkRef(false, 0)
	for rf := 0; rf < 3; rf++ {
		if rf > 0 {
			p.alts = append(p.alts, mkRef(false, rf))
		}
		if pure || nparams+boolInt(variadic) < 2 {
			p.alts = append(p.alts, mkRef(true, rf))
		}
	}
	// --- builder
	p.build = func(d *drive.Driver, cb *gogen.CodeBuilder) {
		pkg := d.Pkg
		tyOf := func(t ty) types.Type {
			if t.name == "int" {
				return types.Typ[types.Int]
			}
			return types.Typ[types.String]
		}
		var params, results []*types.Var
		for k, t := range ptypes {
			params = append(params, types.NewParam(token.NoPos, pkg.Types, fmt.Sprintf("a%d", k), tyOf(t)))
		}
		var rest *types.Var
		if variadic {
			rest = types.NewParam(token.NoPos, pkg.Types, "rest", types.NewSlice(types.Typ[types.Int]))
			params = append(params, rest)
		}
		for _, t := range rtypes {
			results = append(results, types.NewParam(token.NoPos, pkg.Types, "", tyOf(t)))
		}
		sig := types.NewSignatureType(nil, nil, nil, types.NewTuple(params...), types.NewTuple(results...), variadic)
		pushInline := func() {
			for k, a := range args {
				switch a.kind {
				case "var":
					cb.Val(c11Obj(d, ptypes[k].v))
				case "lit":
					if ptypes[k].name == "int" {
						cb.Val(7)
					} else {
						cb.Val("s")
					}
				default:
					cb.Val(c11Obj(d, strings.TrimSuffix(a.ref, "()"))).Call(0)
				}
			}
			arity := len(args)
			if variadic {
				if spread {
					cb.Val(c11Obj(d, "vxs"))
					arity++
				} else {
					for k := 0; k < nvar; k++ {
						cb.Val(c11Obj(d, "vj"))
					}
					arity += nvar
				}
			}
			cb.CallInlineClosureStart(sig, arity, spread)
			if body == "use-then-return" {
				for k, t := range ptypes {
					if t.name == "int" {
						cb.Val(c11Obj(d, "sinkI")).Val(params[k]).Call(1).EndStmt()
					} else {
						cb.Val(c11Obj(d, "sinkS")).Val(params[k]).Call(1).EndStmt()
					}
				}
				if variadic {
					cb.Val(c11Obj(d, "sinkI")).Val(c11Obj(d, "len")).Val(rest).Call(1).Call(1).EndStmt()
				}
			}
			pushRes := func(zero bool) {
				for k, t := range rtypes {
					if zero {
						if t.name == "int" {
							cb.Val(0)
						} else {
							cb.Val("")
						}
						continue
					}
					if _, pi := resExpr(k); pi >= 0 {
						cb.Val(params[pi])
					} else if t.name == "int" {
						cb.Val(7)
					} else {
						cb.Val("s")
					}
				}
				cb.Return(nres)
			}
			if body == "early-return" {
				cb.If().Val(c11Obj(d, "vb")).Then()
				pushRes(true)
				cb.End()
			}
			pushRes(false)
			cb.End()
		}
		switch ctx {
		case "stmt":
			pushInline()
			cb.EndStmt()
		case "define":
			cb.DefineVarStart(token.NoPos, "v")
			pushInline()
			cb.EndInit(1)
			cb.VarRef(nil).VarVal("v").Assign(1)
		case "define2":
			cb.DefineVarStart(token.NoPos, "v", "w")
			pushInline()
			cb.EndInit(2)
			cb.VarRef(nil).VarVal("v").Assign(1)
			cb.VarRef(nil).VarVal("w").Assign(1)
		case "call-arg":
			if rtypes[0].name == "int" {
				cb.Val(c11Obj(d, "sinkI"))
			} else {
				cb.Val(c11Obj(d, "sinkS"))
			}
			pushInline()
			cb.Call(1).EndStmt()
		case "binary":
			cb.DefineVarStart(token.NoPos, "v")
			pushInline()
			pushInline()
			cb.BinaryOp(token.ADD)
			cb.EndInit(1)
			cb.VarRef(nil).VarVal("v").Assign(1)
		}
	}
	if ctx == "binary" {
		// two inline calls in one expression: the reference above describes one; state the meaning as
		// "type-checks" only (mayReject keeps the reference out of it)
		p.mayReject = true
	}
	p.key = "inline:" + p.ref
	var as []string
	for _, a := range args {
		as = append(as, a.ref)
	}
	p.desc = fmt.Sprintf("inline closure call, %d params (variadic %v, spread %v), %d results, body %s, args (%s), context %s", nparams, variadic, spread, nres, body, strings.Join(as, ", "), ctx)
	return p
}

// ---- the check ---------------------------------------------------------------------------------------

func planDesc(p *c11Plan) string {
	if p == nil {
		return "<no plan>"
	}
	return p.desc
}

func c11ReplayFindings(r *hx.Run) {
	for _, f := range r.Findings() {
		var c c11Case
		if f.Replay == "" || r.LoadReplay(f, &c) != nil || c.Feat == "" {
			continue
		}
		r.Eval()
		sig, msg, plan, _ := c11Eval(&c)
		if plan == nil || (c.Note != "" && plan.desc != c.Note) {
			// the recorded choices no longer describe the recorded construct: the plans changed and the
			// replay file was not regenerated
			r.Report(&c, "replay-drift:"+f.ID, "replay %s describes %q but now builds %q", f.Replay, c.Note, planDesc(plan))
			continue
		}
		switch {
		case sig == "":
		case f.Status == "known" && f.Match(sig):
			r.KnownLine(f)
		case f.Status == "fixed" && r.MatchKnown(sig) != nil:
			// the fixed replay now runs into another listed open finding
		default:
			r.Report(&c, sig, "replay of %s finding %s: %s", f.Status, f.ID, msg)
		}
	}
}

func TestC11(t *testing.T) {
	r := hx.Start(t, "C11")
	r.SetRule("one extension construct per case, driven through the CodeBuilder API inside a function body whose package-level context is ordinary Go; the output must type-check and its canonical typed dump must equal the dump of an independently written reference lowering (big literals: the emitted expression is evaluated with math/big and must equal the written value). Non-trivial: every case (each exercises an extension); distinct by construct, receiver/argument shape and statement context.")
	r.Assume("go/types is the oracle for type-correctness of output and reference")
	r.Assume("the reference lowerings are the documented desugarings (doc comments and repository examples), written in the harness as Go source text")
	defer r.Done()
	if r.Replay != "" {
		var c c11Case
		if err := r.ReplayInput(&c); err != nil {
			t.Fatal(err)
		}
		r.Eval()
		if sig, msg, _, _ := c11Eval(&c); sig != "" {
			r.Report(&c, sig, "%s", msg)
		}
		return
	}
	if r.Shard == 0 {
		c11ReplayFindings(r)
	}
	avoid := hx.KnownAvoid()
	feats := []string{"bti", "member", "cast", "alias", "enum", "big", "optional", "inline", "tuple"}
	if only := os.Getenv("VERIF_C11_FEAT"); only != "" {
		feats = []string{only}
	}
	r.Check(t, "extensions", r.N(1500, 60000), func(t *rapid.T) {
		feat := feats[rapid.IntRange(0, len(feats)-1).Draw(t, "feature")]
		ch := &chooser{t: t}
		plan := c11MakePlan(feat, ch)
		c := &c11Case{Feat: feat, A: ch.rec, Note: plan.desc}
		for _, f := range plan.feats {
			if avoid["c11:"+f] {
				// the shape of an open finding: excluded so that the search goes on behind it
				r.Class("excluded:" + f)
				return
			}
		}
		sig, msg, _, status := c11Run(plan)
		r.Eval()
		if sig != "" {
			if f := r.MatchKnown(sig); f != nil {
				r.Known(f)
				return
			}
			r.Fail(t, c, sig, "%s", msg)
		}
		r.Class("feature:" + feat)
		r.Class("status:" + status)
		for _, f := range plan.feats[1:] {
			r.Class(feat + "/" + f)
		}
		if status == "ok" {
			r.Nontrivial(plan.key)
		}
		r.Sample(func() any { return map[string]string{"construct": plan.desc, "reference": plan.ref} })
	})
}

// TestC11Try prints what the builder emits for VERIF_C11=<feat>:<a,b,c,...>
func TestC11Try(t *testing.T) {
	spec := os.Getenv("VERIF_C11")
	if spec == "" {
		t.Skip()
	}
	feat, list, _ := strings.Cut(spec, ":")
	var a []int
	for _, s := range strings.Split(list, ",") {
		if s != "" {
			v, _ := strconv.Atoi(s)
			a = append(a, v)
		}
	}
	c := &c11Case{Feat: feat, A: a}
	sig, msg, plan, status := c11Eval(c)
	fmt.Println("status:", status, "sig:", sig)
	fmt.Println(msg)
	if plan != nil {
		fmt.Println("ref:\n" + plan.ref)
		fmt.Println("out:\n" + plan.out)
	}
}

// TestC11Find (development aid): VERIF_C11_FIND="<feat>|<substring of description>|<substring of reference>"
// prints the smallest case found whose plan matches.
func TestC11Find(t *testing.T) {
	spec := os.Getenv("VERIF_C11_FIND")
	if spec == "" {
		t.Skip()
	}
	parts := strings.SplitN(spec, "|", 3)
	for len(parts) < 3 {
		parts = append(parts, "")
	}
	var best *c11Case
	gen := rapid.Custom(func(t *rapid.T) *c11Case {
		ch := &chooser{t: t}
		plan := c11MakePlan(parts[0], ch)
		return &c11Case{Feat: parts[0], A: append([]int(nil), ch.rec...), Note: plan.desc + " ## " + plan.ref + " ## " + plan.featKey()}
	})
	for i := 0; i < 20000; i++ {
		c := gen.Example(i)
		if strings.Contains(c.Note, parts[1]) && strings.Contains(c.Note, parts[2]) {
			if best == nil || len(c.A) < len(best.A) {
				best = c
			}
		}
	}
	if best == nil {
		t.Fatal("not found")
	}
	b, _ := json.Marshal(map[string]any{"feat": best.Feat, "a": best.A, "note": strings.SplitN(best.Note, " ## ", 2)[0]})
	fmt.Println("CASE", string(b))
	fmt.Println(best.Note)
}
