package props

import (
	"fmt"
	"go/ast"
	"go/types"
	"strings"
	"testing"

	"pgregory.net/rapid"

	"verif/h/drive"
	"verif/h/gen"
	"verif/h/hx"
	"verif/h/oracle"
)

// ---- C08: selector resolution follows Go's field and method lookup rules ---------------------

func init() { oracle.RegisterSource(gen.ExtPackagePath, gen.ExtPackageSrc) }

type memberRec struct {
	objs []types.Object
}

func (m *memberRec) Member(id ast.Node, obj types.Object) { m.objs = append(m.objs, obj) }
func (m *memberRec) Call(fn ast.Node, obj types.Object)   {}

type c08Case struct {
	Src  string       `json:"src"`
	Mode string       `json:"mode"`
	Name string       `json:"name"`
	Occ  []gen.SelOcc `json:"occ"`
}

// targetType: the name of the type the selector is applied to (the prelude declares `var v T`)
func (c *c08Case) targetType() string {
	if i := strings.Index(c.Src, "\nvar v "); i >= 0 {
		rest := c.Src[i+7:]
		if j := strings.IndexByte(rest, '\n'); j >= 0 {
			return rest[:j]
		}
	}
	return "?"
}

func occString(occ []gen.SelOcc) string {
	var parts []string
	for _, o := range occ {
		s := fmt.Sprintf("%d", o.Depth)
		if o.Method {
			s += "m"
		} else {
			s += "f"
		}
		if o.ViaPtr {
			s += "p"
		}
		if o.Ext {
			s += "x"
		}
		parts = append(parts, s)
	}
	return strings.Join(parts, ",")
}

// c08Eval compares verdict, selection (kind, index path), expression type and recorded member.
func c08Eval(c *c08Case) (sig, msg string, skip bool) {
	rec := &memberRec{}
	pc := &progCase{Files: []string{c.Src}}
	var tt *typeTracer
	pr := runProgramOpts(pc, &runHooks{Setup: func(d *drive.Driver, pr *progRun) {
		tt = newTypeTracer(pr, false)
		pr.tracer = tt
		d.Trace = tt.trace
	}}, func(o *drive.Options) { o.Recorder = rec })
	if pr.Failure != "" || pr.Res.PanicKind == "unsupported" {
		return "", "", true
	}
	goOK := pr.Src.OK()
	ggOK := pr.Res.Accepted()
	shape := fmt.Sprintf("mode=%s|occ=%s", c.Mode, occString(c.Occ))
	if pr.Res.PanicKind == "runtime" || pr.Res.PanicKind == "other" {
		return "selector-fault|" + shape, fmt.Sprintf("run-time fault: %v\n%s", pr.Res.Panic, firstLines(pr.Res.Stack, 20)), false
	}
	if goOK != ggOK {
		gomsg := ""
		if !goOK {
			gomsg = oracle.MsgClass(pr.Src.ErrText(1))
		}
		return fmt.Sprintf("selector-verdict|%s|go=%v(%s)|gogen=%v", shape, goOK, gomsg, ggOK),
			fmt.Sprintf("selector .%s (%s): go/types %v (%s), builder %v (%s)", c.Name, c.Mode, goOK, pr.Src.ErrText(1), ggOK, pr.Res.ErrText()), false
	}
	if !goOK {
		return "", "", false
	}
	if tt != nil && tt.first != nil {
		if c.Mode == "methodexpr" || c.Mode == "ptrmethodexpr" {
			// which first parameter (the receiver) each side gives the method expression: T, *T, or another type
			recv := func(t string) string {
				switch {
				case strings.HasPrefix(t, "func(main."+c.targetType()+",") || strings.HasPrefix(t, "func(main."+c.targetType()+")"):
					return "T"
				case strings.HasPrefix(t, "func(*main."+c.targetType()+",") || strings.HasPrefix(t, "func(*main."+c.targetType()+")"):
					return "*T"
				}
				return "other"
			}
			return "selector-type|" + shape + "|" + tt.first.Kind + "|recv:go=" + recv(tt.first.Go) + ",builder=" + recv(tt.first.Gogen), "selector ." + c.Name + ": " + tt.first.String(), false
		}
		return "selector-type|" + shape + "|" + tt.first.Kind, "selector ." + c.Name + ": " + tt.first.String(), false
	}
	if !pr.Out.OK() {
		return "selector-output-ill-typed|" + shape, "emitted code rejected: " + pr.Out.ErrText(2), false
	}
	// which member? compare the selections of source and output through the canonical dump
	want, got := oracle.Dump(pr.Src), oracle.Dump(pr.Out)
	if want != got {
		w, g := firstDiff(want, got)
		return "selector-member|" + shape, fmt.Sprintf("selector .%s resolves differently:\n  source: %s\n  output: %s", c.Name, w, g), false
	}
	// recorded member object: same kind and name as go/types' selection
	var sel *types.Selection
	for e, s := range pr.Src.Info.Selections {
		if e.Sel.Name == c.Name && pr.Fset.Position(e.Pos()).Line > 0 && strings.Contains(pr.SrcMap[fileName(0)][pr.Fset.Position(e.Pos()).Offset-8:], "") {
			if fn := enclosingIsF(pr, e); fn {
				sel = s
			}
		}
	}
	if sel != nil && len(rec.objs) > 0 {
		last := rec.objs[len(rec.objs)-1]
		if last == nil || last.Name() != sel.Obj().Name() || fmt.Sprintf("%T", last) != fmt.Sprintf("%T", sel.Obj()) {
			return "selector-recorded|" + shape, fmt.Sprintf("Recorder.Member got %v, go/types selected %v", last, sel.Obj()), false
		}
		if lv, ok := last.(*types.Var); ok {
			if gv := sel.Obj().(*types.Var); oracle.TypeKey(lv.Type()) != oracle.TypeKey(gv.Type()) {
				return "selector-recorded-type|" + shape, fmt.Sprintf("Recorder.Member got field of type %v, go/types %v", lv.Type(), gv.Type()), false
			}
		}
	}
	return "", "", false
}

func enclosingIsF(pr *progRun, e *ast.SelectorExpr) bool {
	for _, d := range pr.Files[0].Decls {
		if fd, ok := d.(*ast.FuncDecl); ok && fd.Name.Name == "f" && fd.Recv == nil {
			return e.Pos() >= fd.Pos() && e.End() <= fd.End()
		}
	}
	return false
}

func TestC08(t *testing.T) {
	r := hx.Start(t, "C08")
	r.SetRule("generated type graphs (2-7 struct/interface types, 0-3 members each from a 7-name pool as fields or value/pointer-receiver methods, 0-2 embeddings per type by value or pointer of earlier types or of a struct / interface of another package with exported and unexported members) x one selector name (a name occurring in the graph, or absent) x operand mode (addressable variable, pointer, call result, map element, assignment target, method expression T.m and (*T).m, method value). Oracle: go/types on the same program: accept/reject; for accepted selectors the expression type (context-free), the selection (kind and index path, via the canonical dump of the emitted code) and the object given to Recorder.Member. Non-trivial: the name occurs at least twice in the graph, or is reached through a pointer embedding, or belongs to the other package; distinct by source.")
	r.Assume("go/types (LookupFieldOrMethod as used by the checker) is the specification of selector resolution")
	defer r.Done()
	eval := func(c *c08Case) (string, string) {
		sig, msg, _ := c08Eval(c)
		return sig, msg
	}
	if r.Replay != "" {
		var c c08Case
		if err := r.ReplayInput(&c); err != nil {
			t.Fatal(err)
		}
		r.Eval()
		if sig, msg := eval(&c); sig != "" {
			r.Report(&c, sig, "%s", msg)
		}
		return
	}
	if r.Shard == 0 {
		for _, f := range r.Findings() {
			var c c08Case
			if f.Replay == "" || r.LoadReplay(f, &c) != nil {
				continue
			}
			r.Eval()
			sig, msg := eval(&c)
			switch {
			case sig == "":
			case f.Status == "known" && f.Match(sig):
				r.KnownLine(f)
			default:
				r.Report(&c, sig, "replay of %s finding %s: %s", f.Status, f.ID, msg)
			}
		}
	}
	r.Check(t, "selectors", r.N(5000, 200000), func(t *rapid.T) {
		sc := gen.SelectorProgram(t)
		c := &c08Case{Src: sc.Src, Mode: sc.Mode, Name: sc.Name, Occ: sc.Occ}
		sig, msg, skip := c08Eval(c)
		r.Eval()
		if skip {
			r.Class("skipped")
			return
		}
		r.Class("mode:" + sc.Mode)
		r.Class(sc.Feats...)
		if sig != "" {
			if f := r.MatchKnown(sig); f != nil {
				r.Known(f)
				return
			}
			r.Fail(t, c, sig, "%s", msg)
		}
		for _, f := range sc.Feats {
			if f == "name-occurs-twice" || f == "via-pointer-embedding" || f == "other-package-member" {
				r.Nontrivial(sc.Src)
				break
			}
		}
		r.Sample(func() any {
			return map[string]any{"mode": sc.Mode, "name": sc.Name, "occurrences": occString(sc.Occ), "source": sc.Src[strings.Index(sc.Src, "type "):]}
		})
	})
}
