package props

import (
	"go/types"

	"verif/h/oracle"
)

func sharedImporter() types.Importer { return oracle.Importer() }
