package props

import (
	"fmt"
	"go/ast"
	"go/token"
	"go/types"
	"strings"
	"testing"

	"pgregory.net/rapid"

	"verif/h/gen"
	"verif/h/hx"
	"verif/h/oracle"
)

// ---- C01: accepted builds emit well-typed Go ---------------------------------------------------

// c01Eval: (1) if the builder accepted, every file must parse and the package must type-check
// (unused variables/imports excepted); (2) if go/types rejects the source for another reason than
// unused names, the builder must have reported an error.
func c01Eval(c *progCase) (sig, msg string, pr *progRun, cls string) {
	sig, msg, pr, cls, _ = c01EvalT(c)
	return
}

func c01EvalT(c *progCase) (sig, msg string, pr *progRun, cls string, td *typeDisc) {
	defer func() {
		if pr != nil && pr.tracer != nil {
			td = pr.tracer.first
		}
	}()
	_, _, pr = c03Eval(c, false)
	if pr.Failure != "" {
		return "", "", pr, "unparsable-source", nil
	}
	if pr.Res.PanicKind == "unsupported" {
		return "", "", pr, "unsupported-by-driver", nil
	}
	if pr.Res.PanicKind == "runtime" || pr.Res.PanicKind == "other" {
		// a run-time fault is C17's subject; it is neither an accepted build nor a reported error
		return "", "", pr, "runtime-fault(C17)", nil
	}
	srcOK := pr.Src.OK()
	if pr.Res.Accepted() {
		if !pr.Out.OK() {
			kind := "output-ill-typed"
			if pr.Out.ParseErr != nil {
				kind = "output-unparsable"
			}
			return kind + "|" + normMsg(pr.Out.ErrText(1)) + mismatchTag(pr.Out),
				fmt.Sprintf("builder accepted (source valid per go/types: %v) but the emitted code is rejected: %s\n%s", srcOK, pr.Out.ErrText(3), outputContext(pr)), pr, "accepted", nil
		}
		if !srcOK {
			// The emitted code is well-typed although the source is not Go: the builder lowered a
			// language extension (T(), bool casts, ... - C11's subject) or the front end dropped
			// something. The emitted program is then not the source program, so clause (2) of the
			// property does not speak about it; counted, not asserted.
			return "", "", pr, "accepted-non-go-source-lowered", nil
		}
		return "", "", pr, "accepted", nil
	}
	if srcOK {
		return "", "", pr, "valid-rejected(C02)", nil
	}
	return "", "", pr, "invalid-rejected", nil
}

func onlyUndefined(c *oracle.Checked) bool {
	for _, e := range c.HardErrs() {
		if !strings.HasPrefix(e.Msg, "undefined:") && !strings.Contains(e.Msg, "undefined (") {
			return false
		}
	}
	return true
}

func TestC01(t *testing.T) {
	r := hx.Start(t, "C01")
	r.SetRule("G-valid programs and G-mut type-breaking syntax mutations of them (30 mutation kinds: swapped/dropped/added arguments and results, operator and operand substitutions, boundary constants, wrong declaration/literal/result types, := vs =, non-addressable targets, non-rangeable/non-indexable/non-callable operands, misplaced fallthrough, dropped final return ...), default and XGo-builtin configuration. Oracle: accepted => all emitted files parse and type-check under go/types (unused vars/imports excepted); go/types rejects the source => builder reported an error. Non-trivial: builder accepted a program with >= 15 generator features, or a mutant that go/types rejects; distinct by source text.")
	r.Assume("go/types (go1.23) is the specification", "errors that only the front end can raise (undefined identifiers) are not attributed to the builder")
	defer r.Done()
	eval := func(c *progCase) (string, string) {
		sig, msg, _, _ := c01Eval(c)
		return sig, msg
	}
	if r.Replay != "" {
		var c progCase
		if err := r.ReplayInput(&c); err != nil {
			t.Fatal(err)
		}
		r.Eval()
		if sig, msg := eval(&c); sig != "" {
			r.Report(&c, sig, "%s", msg)
		}
		return
	}
	if r.Shard == 0 {
		replayFindings(r, eval)
	}
	avoid := knownAvoid("C01")
	r.Check(t, "accepted-implies-well-typed", r.N(4000, 150000), func(t *rapid.T) {
		xgo := rapid.IntRange(0, 3).Draw(t, "xgo") == 0
		p := gen.GenProgram(t, gen.ProgOpts{Avoid: avoid, TypedConsts: rapid.IntRange(0, 4).Draw(t, "typedconsts") == 0 && !avoid["typed-const-fold"]})
		src, mkind := p.Src, ""
		if rapid.IntRange(0, 2).Draw(t, "mutate") > 0 {
			if m := gen.Mutate(t, p.Src); m.Src != "" {
				src, mkind = m.Src, m.Kind
			}
		}
		c := &progCase{Files: []string{src}, XGo: xgo, Note: mkind}
		sig, msg, pr, cls, td := c01EvalT(c)
		r.Eval()
		r.Class("outcome:" + cls)
		if mkind != "" {
			r.Class("mutation:" + mkind)
		}
		if sig != "" {
			if f := r.MatchKnown(sig); f != nil {
				r.Known(f)
				return
			}
			if td != nil {
				// the builder already mis-typed a sub-expression in a way a listed C03 finding
				// describes; what follows (wrongly typed declarations) is a consequence of it
				if f := r.MatchKnownOf("C03", td.sig()); f != nil {
					r.Class("contaminated-by:" + f.ID)
					return
				}
			}
			r.Fail(t, c, sig, "%s", msg)
		}
		if pr.Src != nil && !pr.Src.OK() {
			r.Class("go-rejects:" + oracle.MsgClass(pr.Src.ErrText(1)))
		}
		switch {
		case cls == "invalid-rejected" && !onlyUndefined(pr.Src):
			r.Nontrivial(src)
		case cls == "accepted" && len(p.Feats) >= 15:
			r.Nontrivial(src)
		}
		r.Sample(func() any { return map[string]any{"xgo": xgo, "mutation": mkind, "outcome": cls, "source": src} })
	})
}

// mismatchTag refines a "mismatched types" diagnostic of the emitted code: it reports whether the
// two operands of the offending comparison / case have identical underlying types (the one
// situation in which the builder's comparability test is known to be too permissive).
func mismatchTag(c *oracle.Checked) string {
	es := c.HardErrs()
	if c.ParseErr != nil || len(es) == 0 || !strings.Contains(es[0].Msg, "mismatched types") {
		return ""
	}
	pos := es[0].Pos
	var x, y ast.Expr
	for _, f := range c.Files {
		ast.Inspect(f, func(n ast.Node) bool {
			if n == nil || pos < n.Pos() || pos >= n.End() {
				return n == nil || false || (pos >= n.Pos() && pos < n.End())
			}
			switch b := n.(type) {
			case *ast.BinaryExpr:
				switch b.Op {
				case token.EQL, token.NEQ, token.LSS, token.LEQ, token.GTR, token.GEQ:
					x, y = b.X, b.Y
				}
			case *ast.SwitchStmt:
				if b.Tag != nil {
					for _, cl := range b.Body.List {
						for _, e := range cl.(*ast.CaseClause).List {
							if pos >= e.Pos() && pos < e.End() && x == nil {
								x, y = b.Tag, e
							}
						}
					}
				}
			}
			return true
		})
	}
	if x == nil {
		return ""
	}
	tx, ty := c.Info.Types[x].Type, c.Info.Types[y].Type
	if tx != nil && ty != nil && types.Identical(tx.Underlying(), ty.Underlying()) {
		return " [same-underlying]"
	}
	return ""
}
