package props

import (
	"fmt"
	"go/ast"
	"go/parser"
	"go/token"
	"go/types"
	"sort"
	"strconv"
	"strings"
	"testing"

	"github.com/goplus/gogen"
	"pgregory.net/rapid"

	"verif/h/drive"
	"verif/h/hx"
	"verif/h/oracle"
)

// ---- C09: each file imports exactly what it uses, under names that never collide ----------------

type c09Pkg struct {
	path, base, tag string
}

// synthetic packages: several share a base name; every exported object name is globally unique,
// so a mis-resolved qualifier cannot type-check by accident.
var c09Pkgs = []c09Pkg{
	{"example.com/verif/a/dup", "dup", "Adup"},
	{"example.com/verif/b/dup", "dup", "Bdup"},
	{"example.com/verif/c/dup", "dup", "Cdup"},
	{"example.com/verif/x/pk1", "pk1", "Xpk1"},
	{"example.com/verif/x/pk2", "pk2", "Xpk2"},
	{"example.com/verif/y/err", "err", "Yerr"},
	{"example.com/verif/y/v", "v", "Yv"},
}

func init() {
	for _, p := range c09Pkgs {
		oracle.RegisterSource(p.path, fmt.Sprintf("package %s\n\nvar V%s int\n\ntype T%s struct{ F int }\n\nfunc F%s() int { return 0 }\n\nconst K%s = 2\n\ntype M%s map[int]int\n", p.base, p.tag, p.tag, p.tag, p.tag, p.tag))
	}
}

type c09Op struct {
	Op   string `json:"op"`             // file ref force decl discard write auto
	File int    `json:"file,omitempty"` // file: index
	Pkg  int    `json:"pkg,omitempty"`
	Kind string `json:"kind,omitempty"` // ref: val type func; decl: see below
	Ctx  string `json:"ctx,omitempty"`  // ref: body init sig typedecl
	Name string `json:"name,omitempty"` // decl: identifier
}

type c09Case struct {
	Ops []c09Op `json:"ops"`
}

var c09Files = []string{"", "b.go", "c.go"}

type c09State struct {
	pkg    *gogen.Package
	cur    int
	seq    int
	model  [3]map[string]bool // referenced paths per file
	forced [3]map[string]bool
	feats  map[string]bool
	pkgIDs map[string]bool // package-level identifiers declared so far
	wrote  bool
}

func (s *c09State) fresh(prefix string) string {
	s.seq++
	return fmt.Sprintf("%s%d", prefix, s.seq)
}

func (s *c09State) refObj(pi int, kind string) types.Object {
	p := c09Pkgs[pi]
	ref := s.pkg.Import(p.path)
	switch kind {
	case "type":
		return ref.Ref("T" + p.tag)
	case "func":
		return ref.Ref("F" + p.tag)
	}
	return ref.Ref("V" + p.tag)
}

// useInBody emits `_ = <ref>` (or a call / composite literal) into the current function body.
func (s *c09State) useInBody(pi int, kind string) {
	cb := s.pkg.CB()
	o := s.refObj(pi, kind)
	switch kind {
	case "type":
		cb.VarRef(nil).StructLit(o.Type(), 0, false).Assign(1)
	case "func":
		cb.VarRef(nil).Val(o).Call(0).Assign(1)
	case "slicekey":
		// _ = []int{p.K: 1}: the package occurs only as the index key of a slice literal
		k := s.pkg.Import(c09Pkgs[pi].path).Ref("K" + c09Pkgs[pi].tag)
		cb.VarRef(nil).Val(k).Val(1).SliceLit(types.NewSlice(types.Typ[types.Int]), 2, true).Assign(1)
		s.feats["ref-only-as-literal-key"] = true
	case "arraykey":
		k := s.pkg.Import(c09Pkgs[pi].path).Ref("K" + c09Pkgs[pi].tag)
		cb.VarRef(nil).Val(k).Val(1).ArrayLit(types.NewArray(types.Typ[types.Int], 4), 2, true).Assign(1)
		s.feats["ref-only-as-literal-key"] = true
	case "mapkey":
		// _ = q.M{p.K: 1}: the package occurs only as a key of a literal of a named map type of another package
		k := s.pkg.Import(c09Pkgs[pi].path).Ref("K" + c09Pkgs[pi].tag)
		qi := (pi + 1) % len(c09Pkgs)
		m := s.pkg.Import(c09Pkgs[qi].path).Ref("M" + c09Pkgs[qi].tag)
		cb.VarRef(nil).Val(k).Val(1).MapLit(m.Type(), 2).Assign(1)
		s.model[s.cur][c09Pkgs[qi].path] = true
		s.feats["ref-only-as-literal-key"] = true
	case "fieldval":
		// _ = q.T{F: p.V}
		qi := (pi + 1) % len(c09Pkgs)
		tq := s.pkg.Import(c09Pkgs[qi].path).Ref("T" + c09Pkgs[qi].tag)
		cb.VarRef(nil).Val(0).Val(o).StructLit(tq.Type(), 2, true).Assign(1)
		s.model[s.cur][c09Pkgs[qi].path] = true
	default:
		cb.VarRef(nil).Val(o).Assign(1)
	}
	s.model[s.cur][c09Pkgs[pi].path] = true
}

func (s *c09State) apply(op c09Op) {
	pkg := s.pkg
	cb := pkg.CB()
	tyInt := types.Typ[types.Int]
	switch op.Op {
	case "file":
		if op.File < 0 || op.File >= len(c09Files) {
			return
		}
		pkg.SetCurFile(c09Files[op.File], true)
		s.cur = op.File
	case "force":
		pkg.ForceImport(c09Pkgs[op.Pkg].path)
		s.forced[s.cur][c09Pkgs[op.Pkg].path] = true
	case "discard":
		fn := pkg.NewFunc(nil, s.fresh("fd"), nil, nil, false)
		fn.BodyStart(pkg)
		cb.Val(s.refObj(op.Pkg, "val"))
		cb.InternalStack().Pop()
		cb.End()
		s.feats["discarded-reference"] = true
	case "ref":
		p := c09Pkgs[op.Pkg]
		switch op.Ctx {
		case "init":
			o := s.refObj(op.Pkg, "val")
			pkg.NewVarDefs(pkg.Types.Scope()).NewAndInit(func(cb *gogen.CodeBuilder) int { cb.Val(o); return 1 }, token.NoPos, nil, s.fresh("gv"))
			s.model[s.cur][p.path] = true
		case "sig":
			o := s.refObj(op.Pkg, "type")
			params := types.NewTuple(types.NewParam(0, pkg.Types, "a", o.Type()))
			pkg.NewFunc(nil, s.fresh("fs"), params, nil, false).BodyStart(pkg).End()
			s.model[s.cur][p.path] = true
		case "typedecl":
			o := s.refObj(op.Pkg, "type")
			st := types.NewStruct([]*types.Var{types.NewField(0, pkg.Types, "f", o.Type(), false)}, nil)
			pkg.NewTypeDefs().NewType(s.fresh("ty")).InitType(pkg, st)
			s.model[s.cur][p.path] = true
		default:
			fn := pkg.NewFunc(nil, s.fresh("fb"), nil, nil, false)
			fn.BodyStart(pkg)
			s.useInBody(op.Pkg, op.Kind)
			cb.End()
		}
	case "decl":
		name := op.Name
		if s.wrote {
			// the files were already written with the import names chosen then; a declaration that
			// collides with one of them afterwards cannot be honoured any more (outside the domain)
			s.feats["decl-after-write-skipped"] = true
			return
		}
		switch op.Kind {
		case "pkgvar", "pkgvar-init", "const", "type", "func":
			if s.pkgIDs[name] {
				return // a redeclaration is a different error, not the subject
			}
			s.pkgIDs[name] = true
			s.feats["package-level-decl-named-like-import"] = true
			switch op.Kind {
			case "pkgvar":
				pkg.NewVarDefs(pkg.Types.Scope()).New(token.NoPos, tyInt, name)
			case "pkgvar-init":
				pkg.NewVarDefs(pkg.Types.Scope()).NewAndInit(func(cb *gogen.CodeBuilder) int { cb.Val(1); return 1 }, token.NoPos, nil, name)
			case "const":
				pkg.NewConstDefs(pkg.Types.Scope()).New(func(cb *gogen.CodeBuilder) int { cb.Val(1); return 1 }, 0, token.NoPos, nil, name)
			case "type":
				pkg.NewTypeDefs().NewType(name).InitType(pkg, tyInt)
			case "func":
				pkg.NewFunc(nil, name, nil, nil, false).BodyStart(pkg).End()
			}
		default:
			// a local declaration of `name` that encloses a reference to package op.Pkg
			s.feats["local-decl-named-like-import:"+op.Kind] = true
			var params, results *types.Tuple
			if op.Kind == "param" {
				params = types.NewTuple(types.NewParam(0, pkg.Types, name, tyInt))
			}
			if op.Kind == "result" {
				results = types.NewTuple(types.NewParam(0, pkg.Types, name, tyInt))
			}
			fn := pkg.NewFunc(nil, s.fresh("fl"), params, results, false)
			fn.BodyStart(pkg)
			switch op.Kind {
			case "local-define":
				cb.DefineVarStart(token.NoPos, name).Val(1).EndInit(1)
				cb.VarRef(nil).VarVal(name).Assign(1)
				s.useInBody(op.Pkg, "val")
			case "local-var":
				cb.NewVar(tyInt, name)
				cb.VarRef(nil).VarVal(name).Assign(1)
				s.useInBody(op.Pkg, "val")
			case "range":
				cb.ForRange(name).Val(3).RangeAssignThen(token.NoPos)
				cb.VarRef(nil).VarVal(name).Assign(1)
				s.useInBody(op.Pkg, "val")
				cb.End()
			case "typeswitch":
				cb.TypeSwitch(name).Typ(types.NewInterfaceType(nil, nil).Complete()).Val(nil).Call(1).TypeAssertThen()
				cb.TypeCase().Typ(tyInt).Then()
				cb.VarRef(nil).VarVal(name).Assign(1)
				s.useInBody(op.Pkg, "val")
				cb.End()
				cb.End()
			case "param":
				s.useInBody(op.Pkg, "val")
			case "result":
				s.useInBody(op.Pkg, "val")
				cb.Val(0).Return(1)
			}
			cb.End()
		}
	case "auto":
		// a user identifier that looks like a generated helper name, then a construct that makes
		// the builder generate one (two-value member access on `any`)
		name := "_autoGo_" + strconv.Itoa(1+op.Pkg%3)
		if !s.pkgIDs[name] {
			s.pkgIDs[name] = true
			pkg.NewVarDefs(pkg.Types.Scope()).New(token.NoPos, tyInt, name)
		}
		fn := pkg.NewFunc(nil, s.fresh("fa"), types.NewTuple(types.NewParam(0, pkg.Types, "x", gogen.TyEmptyInterface)), nil, false)
		fn.BodyStart(pkg)
		cb.DefineVarStart(token.NoPos, "p", "ok").VarVal("x").MemberVal("field", 2).EndInit(1)
		cb.VarRef(nil).VarRef(nil).VarVal("p").VarVal("ok").Assign(2)
		cb.NewVarStart(tyInt, "u").Val(pkg.Types.Scope().Lookup(name)).EndInit(1) // must still be the package-level int
		cb.VarRef(nil).VarVal("u").Assign(1)
		cb.End()
		s.feats["user-name-like-helper"] = true
	}
}

func c09Hard(c *oracle.Checked) []string {
	var out []string
	if c.ParseErr != nil {
		return []string{"parse: " + c.ParseErr.Error()}
	}
	for _, e := range c.Errs {
		if strings.HasPrefix(e.Msg, "label ") || !strings.Contains(e.Msg, "declared and not used") {
			out = append(out, c.Fset.Position(e.Pos).String()+": "+e.Msg)
		}
	}
	return out
}

// c09Check writes all files and applies the oracle.
func (s *c09State) check(step int) (sig, msg string) {
	out := map[string]string{}
	var werr error
	func() {
		defer func() {
			if e := recover(); e != nil {
				werr = fmt.Errorf("panic while writing: %v", e)
			}
		}()
		for fi, fname := range c09Files {
			if _, ok := s.pkg.File(fname); !ok && fi != 0 {
				continue
			}
			var b strings.Builder
			if err := s.pkg.WriteTo(&b, fname); err != nil {
				werr = err
				return
			}
			n := fname
			if n == "" {
				n = "a.go"
			}
			out[n] = b.String()
		}
	}()
	if werr != nil {
		return "write-error|" + normMsg(werr.Error()), werr.Error()
	}
	chk := oracle.CheckSources("example.com/verif/foo", out, oracle.Importer())
	dump := func() string {
		var b strings.Builder
		var names []string
		for n := range out {
			names = append(names, n)
		}
		sort.Strings(names)
		for _, n := range names {
			b.WriteString("--- " + n + "\n" + out[n])
		}
		if b.Len() > 1500 {
			return b.String()[:1500] + "\n..."
		}
		return b.String()
	}
	if hard := c09Hard(chk); len(hard) > 0 {
		cls := oracle.MsgClass(hard[0])
		if strings.Contains(hard[0], "imported and not used") {
			cls = "unused import"
		}
		return "output-rejected|" + cls, fmt.Sprintf("after step %d the written files do not type-check: %s\n%s", step, strings.Join(hard, "; "), dump())
	}
	// import sets
	for fi, fname := range c09Files {
		n := fname
		if n == "" {
			n = "a.go"
		}
		text, ok := out[n]
		if !ok {
			continue
		}
		f, _ := parser.ParseFile(token.NewFileSet(), n, text, parser.ImportsOnly)
		got := map[string]bool{}
		names := map[string]bool{}
		for _, is := range f.Imports {
			path, _ := strconv.Unquote(is.Path.Value)
			if got[path] {
				return "import-set|duplicate", fmt.Sprintf("file %s imports %s twice\n%s", n, path, dump())
			}
			got[path] = true
			name := path[strings.LastIndex(path, "/")+1:]
			if is.Name != nil {
				name = is.Name.Name
			}
			if name != "_" {
				if names[name] {
					return "import-set|name-clash", fmt.Sprintf("file %s uses the import name %s twice\n%s", n, name, dump())
				}
				names[name] = true
				if s.pkgIDs[name] {
					return "import-set|name-equals-declared-identifier", fmt.Sprintf("file %s imports a package under the name %s, which the package declares\n%s", n, name, dump())
				}
			}
		}
		want := map[string]bool{}
		for p := range s.model[fi] {
			want[p] = true
		}
		for p := range s.forced[fi] {
			want[p] = true
		}
		for p := range want {
			if !got[p] {
				return "import-set|missing", fmt.Sprintf("file %s does not import %s although it references it\n%s", n, p, dump())
			}
		}
		for p := range got {
			if !want[p] {
				return "import-set|extra", fmt.Sprintf("file %s imports %s, which it neither references nor force-imports\n%s", n, p, dump())
			}
		}
	}
	return "", ""
}

func c09Run(c *c09Case) (sig, msg string, feats map[string]bool) {
	s := &c09State{feats: map[string]bool{}, pkgIDs: map[string]bool{}}
	for i := range s.model {
		s.model[i], s.forced[i] = map[string]bool{}, map[string]bool{}
	}
	var errs []error
	s.pkg = gogen.NewPackage("example.com/verif/foo", "foo", &gogen.Config{Importer: oracle.Importer(), HandleErr: func(err error) { errs = append(errs, err) }})
	wrote := false
	for step, op := range c.Ops {
		if op.Pkg < 0 || op.Pkg >= len(c09Pkgs) {
			op.Pkg = 0
		}
		var perr any
		func() {
			defer func() { perr = recover() }()
			if op.Op == "write" {
				return
			}
			s.apply(op)
		}()
		if perr != nil {
			kind := drive.ClassifyPanic(perr)
			return "builder-error|" + kind + "|" + op.Op + ":" + op.Kind + "|" + normMsg(fmt.Sprint(perr)), fmt.Sprintf("step %d (%+v) failed: %v", step, op, perr), s.feats
		}
		if len(errs) > 0 {
			return "builder-error|reported|" + op.Op + ":" + op.Kind + "|" + normMsg(errs[0].Error()), fmt.Sprintf("step %d (%+v) reported: %v", step, op, errs[0]), s.feats
		}
		if op.Op == "write" {
			if sig, msg := s.check(step); sig != "" {
				return sig, msg, s.feats
			}
			if step < len(c.Ops)-1 {
				wrote = true
				s.wrote = true
			}
		} else if wrote && (op.Op == "ref" || op.Op == "decl") {
			s.feats["reference-after-mid-history-write"] = true
		}
	}
	sig, msg = s.check(len(c.Ops))
	// same-base-name imports used in one file
	for fi := range s.model {
		bases := map[string]int{}
		for p := range s.model[fi] {
			bases[p[strings.LastIndex(p, "/")+1:]]++
		}
		for _, n := range bases {
			if n >= 2 {
				s.feats["same-base-name-imports-in-one-file"] = true
			}
		}
	}
	return sig, msg, s.feats
}

func TestC09(t *testing.T) {
	r := hx.Start(t, "C09")
	r.SetRule("rapid state machine over a three-file package and 7 synthetic packages (three share the base name dup; others are named like common identifiers err, v): switch current file; reference a value / type / function of a package from a function body, an initialiser, a signature or a type declaration; force-import; declare a package-level var (with/without initialiser), const, type or func, or a parameter, named result, :=, var, range or type-switch variable, whose name equals an import's base name and whose scope encloses a later reference; build a reference and discard it; declare an identifier of the form _autoGo_N and trigger a generated helper name; write all files mid-history and continue. Model: per file the set of referenced plus force-imported paths. Oracle after every write and at the end: all files parse and type-check together (an unused import is a violation; every exported name of the synthetic packages is unique, so a qualifier that resolves to the wrong entity cannot type-check), import set == model per file, import names unique per file and different from every package-level identifier. Non-trivial: two same-base-name imports used in one file, a colliding declaration, a discarded reference or a mid-history write; distinct by op list.")
	r.Assume("ForEachFile order is unspecified and not compared", "declared names are Go identifiers without control characters")
	defer r.Done()
	eval := func(c *c09Case) (string, string) {
		sig, msg, _ := c09Run(c)
		return sig, msg
	}
	if r.Replay != "" {
		var c c09Case
		if err := r.ReplayInput(&c); err != nil {
			t.Fatal(err)
		}
		r.Eval()
		if sig, msg := eval(&c); sig != "" {
			r.Report(&c, sig, "%s", msg)
		}
		return
	}
	if r.Shard == 0 {
		for _, f := range r.Findings() {
			var c c09Case
			if f.Replay == "" || r.LoadReplay(f, &c) != nil {
				continue
			}
			r.Eval()
			sig, msg := eval(&c)
			switch {
			case sig == "":
			case f.Status == "known" && f.Match(sig):
				r.KnownLine(f)
			default:
				r.Report(&c, sig, "replay of %s finding %s: %s", f.Status, f.ID, msg)
			}
		}
	}
	avoid := knownAvoid("C09")
	pk := rapid.IntRange(0, len(c09Pkgs)-1)
	baseNames := []string{"dup", "pk1", "pk2", "err", "v"}
	r.Check(t, "imports", r.N(2000, 60000), func(t *rapid.T) {
		c := &c09Case{}
		add := func(op c09Op) { c.Ops = append(c.Ops, op) }
		actions := map[string]func(*rapid.T){
			"file": func(t *rapid.T) { add(c09Op{Op: "file", File: rapid.IntRange(0, 2).Draw(t, "f")}) },
			"ref": func(t *rapid.T) {
				add(c09Op{Op: "ref", Pkg: pk.Draw(t, "p"), Kind: pick(t, "kind", []string{"val", "type", "func", "val", "type", "func", "slicekey", "arraykey", "mapkey", "fieldval"}), Ctx: pick(t, "ctx", []string{"body", "body", "init", "sig", "typedecl"})})
			},
			"refdup": func(t *rapid.T) {
				add(c09Op{Op: "ref", Pkg: rapid.IntRange(0, 2).Draw(t, "p"), Kind: "val", Ctx: "body"})
			},
			"force":   func(t *rapid.T) { add(c09Op{Op: "force", Pkg: pk.Draw(t, "p")}) },
			"discard": func(t *rapid.T) { add(c09Op{Op: "discard", Pkg: pk.Draw(t, "p")}) },
			"decl-pkg": func(t *rapid.T) {
				if avoid["c09-pkg-decl-collision"] {
					t.Skip()
				}
				add(c09Op{Op: "decl", Name: pick(t, "name", baseNames), Kind: pick(t, "dk", []string{"pkgvar", "pkgvar-init", "const", "type", "func"})})
			},
			"decl-local": func(t *rapid.T) {
				if avoid["c09-local-decl-collision"] {
					t.Skip()
				}
				pi := pk.Draw(t, "p")
				add(c09Op{Op: "decl", Pkg: pi, Name: c09Pkgs[pi].base, Kind: pick(t, "dk", []string{"local-define", "local-var", "param", "result", "range", "typeswitch"})})
			},
			"auto": func(t *rapid.T) {
				if avoid["c09-auto-name"] {
					t.Skip()
				}
				add(c09Op{Op: "auto", Pkg: rapid.IntRange(0, 2).Draw(t, "n")})
			},
			"write": func(t *rapid.T) {
				if avoid["c09-mid-history-write"] {
					t.Skip()
				}
				add(c09Op{Op: "write"})
			},
		}
		t.Repeat(actions)
		sig, msg, feats := c09Run(c)
		r.Eval()
		if sig != "" {
			if f := r.MatchKnown(sig); f != nil {
				r.Known(f)
				return
			}
			r.Fail(t, c, sig, "%s", msg)
		}
		nontrivial := false
		for f := range feats {
			r.Class(f)
			nontrivial = true
		}
		if nontrivial {
			r.Nontrivial(fmt.Sprint(c.Ops))
		}
		r.Sample(func() any { return c })
	})
	_ = ast.NewIdent
}
