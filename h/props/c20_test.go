package props

import (
	"bytes"
	"fmt"
	"io"
	"os"
	"path/filepath"
	"sort"
	"strconv"
	"strings"
	"sync"
	"testing"

	"github.com/goplus/gogen/packages/cache"
	"pgregory.net/rapid"

	"verif/h/hx"
)

// ---- C20: the export-data cache never serves stale data and survives save/load ---------------
//
// The listing command is a stub `go` (a shell script first on PATH) that answers `go list -export`
// from files the harness rewrites whenever the scripted world changes, "builds" the export file it
// names (content = package@version plus the versions of all its dependencies) and logs every call.

type c20Op struct {
	Op   string `json:"op"` // find prepare bump sethash skipdep delexp fail malformed save load corrupt concurrent
	Pkg  int    `json:"pkg,omitempty"`
	Pkgs []int  `json:"pkgs,omitempty"`
	Val  string `json:"val,omitempty"`
	Kind string `json:"kind,omitempty"`
	Pos  int    `json:"pos,omitempty"`
	On   bool   `json:"on,omitempty"`
}

type c20Case struct {
	Deps     [][]int `json:"deps"`     // direct dependencies per package index (edges i -> j, j > i)
	Specials bool    `json:"specials"` // fingerprints may be "?" / "" (then only the reference model is compared, not content freshness)
	Ops      []c20Op `json:"ops"`
}

var c20Names = []string{"a", "b", "c", "d", "e/f", "zz"} // zz is unknown to the listing command

const c20Known = 5

type c20Rec struct {
	exp, data, own string
	deps           [][2]string
}

type c20World struct {
	mu        sync.Mutex
	dir       string
	deps      [][]int // transitive, sorted
	ver       []int
	hash      []string
	skipDep   []bool
	fail      bool
	malformed bool
	hseq      int
}

func (w *c20World) h(path string, self bool) string {
	w.mu.Lock()
	defer w.mu.Unlock()
	for i, n := range c20Names {
		if n == path {
			if !self && w.skipDep[i] {
				return cache.HashSkip
			}
			return w.hash[i]
		}
	}
	return "unknown-" + path
}

func c20Esc(p string) string { return strings.ReplaceAll(p, "/", "_") }

func (w *c20World) content(i int) string {
	s := fmt.Sprintf("%s@%d", c20Names[i], w.ver[i])
	for _, d := range w.deps[i] {
		s += fmt.Sprintf(",%s@%d", c20Names[d], w.ver[d])
	}
	return s
}

func (w *c20World) expPath(i int) string {
	return filepath.Join(w.dir, "exp", fmt.Sprintf("%s-%x.a", c20Esc(c20Names[i]), hx.Hash64(w.content(i))))
}

// sync rewrites the files the stub answers from.
func (w *c20World) sync() {
	for i := 0; i < c20Known; i++ {
		var ds []string
		for _, d := range w.deps[i] {
			ds = append(ds, c20Names[d])
		}
		line := fmt.Sprintf("%s\t%s\t[%s]\n", c20Names[i], w.expPath(i), strings.Join(ds, " "))
		os.WriteFile(filepath.Join(w.dir, "pkgs", c20Esc(c20Names[i])), []byte(line), 0o644)
		os.WriteFile(filepath.Join(w.dir, "src", c20Esc(c20Names[i])), []byte(w.content(i)), 0o644)
	}
	flag := func(name string, on bool) {
		p := filepath.Join(w.dir, name)
		if on {
			os.WriteFile(p, nil, 0o644)
		} else {
			os.Remove(p)
		}
	}
	flag("fail", w.fail)
	flag("malformed", w.malformed)
}

func c20Calls(dir string) int {
	b, _ := os.ReadFile(filepath.Join(dir, "calls.log"))
	return bytes.Count(b, []byte("\n"))
}

func c20Closure(direct [][]int) [][]int {
	n := len(direct)
	out := make([][]int, n)
	for i := n - 1; i >= 0; i-- {
		set := map[int]bool{}
		for _, d := range direct[i] {
			if d > i && d < n {
				set[d] = true
				for _, t := range out[d] {
					set[t] = true
				}
			}
		}
		for d := range set {
			out[i] = append(out[i], d)
		}
		sort.Ints(out[i])
	}
	return out
}

var c20PathOnce sync.Once

// c20Exec runs a history; returns the first disagreement and feature labels.
func c20Exec(c *c20Case) (bad string, feats map[string]bool) {
	feats = map[string]bool{}
	base := os.Getenv("VERIF_WORK")
	if base == "" {
		base = os.TempDir()
	}
	dir, err := os.MkdirTemp(base, "c20-")
	if err != nil {
		return "INFRA: " + err.Error(), feats
	}
	defer os.RemoveAll(dir)
	for _, d := range []string{"bin", "pkgs", "src", "exp"} {
		os.MkdirAll(filepath.Join(dir, d), 0o755)
	}
	stub := os.Getenv("VERIF_STUBGO")
	if stub == "" {
		stub = filepath.Join(hx.VerifRoot(), ".bin", "stubgo")
	}
	if err := os.Symlink(stub, filepath.Join(dir, "bin", "go")); err != nil {
		return "INFRA: " + err.Error(), feats
	}
	os.Setenv("VERIF_STUB_DIR", dir)
	c20PathOnce.Do(func() {
		if os.Getenv("VERIF_REAL_PATH") == "" {
			os.Setenv("VERIF_REAL_PATH", os.Getenv("PATH"))
		}
	})
	// exec.Command resolves "go" through PATH at call time; cases run sequentially within a process.
	os.Setenv("PATH", filepath.Join(dir, "bin")+string(os.PathListSeparator)+os.Getenv("VERIF_REAL_PATH"))
	defer os.Setenv("PATH", os.Getenv("VERIF_REAL_PATH"))

	direct := make([][]int, c20Known)
	copy(direct, c.Deps)
	w := &c20World{dir: dir, deps: append(c20Closure(direct), nil), ver: make([]int, len(c20Names)), hash: make([]string, len(c20Names)), skipDep: make([]bool, len(c20Names))}
	newHash := func() string { w.hseq++; return fmt.Sprintf("H%04d", w.hseq) }
	for i := range w.hash {
		w.hash[i] = newHash()
	}
	w.sync()

	defer func() {
		if e := recover(); e != nil {
			bad = fmt.Sprintf("panic: %v", e)
		}
	}()

	cur := cache.New(w.h)
	rec := map[int]*c20Rec{}
	var saved map[int]*c20Rec
	savedOnce := false
	modelValid := true
	cacheFile := filepath.Join(dir, "gopkg.cache")
	lastFindVer := map[int]string{}

	fileExists := func(p string) bool { _, e := os.Stat(p); return e == nil }
	dirty := func(i int) bool {
		r, ok := rec[i]
		if !ok || r.own == cache.HashInvalid || w.h(c20Names[i], true) != r.own {
			return true
		}
		for _, d := range r.deps {
			if w.h(d[0], false) != d[1] {
				return true
			}
		}
		return !fileExists(r.exp)
	}
	listable := func(i int) bool { return i < c20Known && !w.fail && !w.malformed }
	record := func(i int) {
		r := &c20Rec{exp: w.expPath(i), data: w.content(i), own: w.h(c20Names[i], true)}
		for _, d := range w.deps[i] {
			if hv := w.h(c20Names[d], false); hv != cache.HashSkip {
				r.deps = append(r.deps, [2]string{c20Names[d], hv})
			}
		}
		rec[i] = r
	}
	copyRec := func(m map[int]*c20Rec) map[int]*c20Rec {
		o := map[int]*c20Rec{}
		for k, v := range m {
			o[k] = v
		}
		return o
	}
	read := func(f io.ReadCloser) string {
		if f == nil {
			return "<nil reader>"
		}
		defer f.Close()
		b, _ := io.ReadAll(f)
		return string(b)
	}

	for step, op := range c.Ops {
		i := op.Pkg
		if i < 0 || i >= len(c20Names) {
			continue
		}
		switch op.Op {
		case "find":
			calls0, lt0 := c20Calls(dir), cur.ListTimes()
			wasDirty := !modelValid || dirty(i)
			var want string
			wantErr := false
			if modelValid {
				if !wasDirty {
					want = rec[i].data
				} else if listable(i) {
					record(i)
					want = rec[i].data
				} else {
					wantErr = true
				}
			}
			f, err := cur.Find(dir, c20Names[i])
			calls1, lt1 := c20Calls(dir), cur.ListTimes()
			var got string
			if err == nil {
				got = read(f)
			} else if f != nil {
				f.Close()
			}
			if prev, ok := lastFindVer[i]; ok && prev != w.content(i) {
				feats["find-after-change"] = true
			}
			lastFindVer[i] = w.content(i)
			if modelValid {
				if wantErr {
					feats["failed-listing"] = true
					if err == nil {
						return fmt.Sprintf("step %d: Find(%s) must re-list, the listing fails, yet it returned data %q and no error", step, c20Names[i], got), feats
					}
				} else {
					if err != nil {
						return fmt.Sprintf("step %d: Find(%s) returned error %v, model expects data %q", step, c20Names[i], err, want), feats
					}
					if got != want {
						return fmt.Sprintf("step %d: Find(%s) returned %q, model expects %q", step, c20Names[i], got, want), feats
					}
				}
				wantList := 0
				if wasDirty {
					wantList = 1
				}
				if calls1-calls0 != wantList || lt1-lt0 != wantList {
					return fmt.Sprintf("step %d: Find(%s) dirty=%v ran the listing command %d times (ListTimes +%d), expected %d", step, c20Names[i], wasDirty, calls1-calls0, lt1-lt0, wantList), feats
				}
				if !wasDirty {
					feats["served-without-listing"] = true
				}
			}
			if !c.Specials && err == nil && i < c20Known && got != w.content(i) {
				return fmt.Sprintf("step %d: Find(%s) served stale data %q, current export data is %q", step, c20Names[i], got, w.content(i)), feats
			}
		case "prepare":
			var names []string
			ok := true
			for _, p := range op.Pkgs {
				if p < 0 || p >= len(c20Names) {
					continue
				}
				names = append(names, c20Names[p])
				if !listable(p) {
					ok = false
				}
			}
			if len(names) == 0 {
				continue
			}
			lt0 := cur.ListTimes()
			err := cur.Prepare(dir, names...)
			if cur.ListTimes()-lt0 != 1 {
				return fmt.Sprintf("step %d: Prepare counted %d listings", step, cur.ListTimes()-lt0), feats
			}
			if (err == nil) != ok {
				return fmt.Sprintf("step %d: Prepare(%v) err=%v, expected success=%v", step, names, err, ok), feats
			}
			if ok {
				for _, p := range op.Pkgs {
					if p >= 0 && p < c20Known {
						record(p)
					}
				}
			}
		case "bump":
			if i >= c20Known {
				continue
			}
			w.mu.Lock()
			w.ver[i]++
			w.hash[i] = newHash()
			w.mu.Unlock()
			w.sync()
			feats["bump"] = true
			if len(w.deps[i]) == 0 {
				feats["bump-leaf-dependency"] = true
			}
		case "sethash":
			if !c.Specials || i >= c20Known {
				continue
			}
			w.mu.Lock()
			w.hash[i] = op.Val
			w.mu.Unlock()
			feats["special-hash"] = true
		case "skipdep":
			if !c.Specials || i >= c20Known {
				continue
			}
			w.mu.Lock()
			w.skipDep[i] = op.On
			w.mu.Unlock()
			feats["skip-dep"] = true
		case "delexp":
			if modelValid {
				if r, ok := rec[i]; ok {
					os.Remove(r.exp)
					feats["export-file-deleted"] = true
				}
			} else if i < c20Known {
				os.Remove(w.expPath(i))
			}
		case "fail":
			w.fail = op.On
			w.sync()
		case "malformed":
			w.malformed = op.On
			w.sync()
		case "save":
			if err := cur.Save(cacheFile); err != nil {
				return fmt.Sprintf("step %d: Save: %v", step, err), feats
			}
			if cur.ListTimes() > 0 && modelValid {
				saved = copyRec(rec)
				savedOnce = true
			} else if cur.ListTimes() > 0 {
				savedOnce, saved = false, nil // file written from an unmodelled cache
			}
		case "load":
			if !modelValid && !savedOnce {
				continue
			}
			cur = cache.New(w.h)
			if err := cur.Load(cacheFile); err != nil {
				return fmt.Sprintf("step %d: Load of a file written by Save failed: %v", step, err), feats
			}
			if savedOnce {
				rec = copyRec(saved)
				modelValid = true
				feats["save-load"] = true
			} else if fileExists(cacheFile) {
				modelValid = false
			} else {
				rec = map[int]*c20Rec{}
				modelValid = true
			}
		case "corrupt":
			if c.Specials {
				continue
			}
			data, err := os.ReadFile(cacheFile)
			if err != nil || len(data) == 0 {
				continue
			}
			bad := c20Corrupt(data, op.Kind, op.Pos)
			if bytes.Equal(bad, data) {
				continue
			}
			bf := filepath.Join(dir, "corrupt.cache")
			os.WriteFile(bf, bad, 0o644)
			cur = cache.New(w.h)
			lerr := cur.Load(bf) // must not panic; error or not, later lookups must not be stale
			modelValid = false
			feats["corrupt-load:"+op.Kind] = true
			if lerr != nil {
				feats["corrupt-load-reported"] = true
			}
		case "concurrent":
			if len(op.Pkgs) == 0 {
				continue
			}
			type res struct {
				p    int
				data string
				err  error
			}
			results := make([]res, len(op.Pkgs))
			var wg sync.WaitGroup
			wasDirty := map[int]bool{}
			if modelValid {
				for _, p := range op.Pkgs {
					if p >= 0 && p < len(c20Names) {
						wasDirty[p] = dirty(p)
					}
				}
			}
			for k, p := range op.Pkgs {
				if p < 0 || p >= len(c20Names) {
					continue
				}
				wg.Add(1)
				go func(k, p int) {
					defer wg.Done()
					f, err := cur.Find(dir, c20Names[p])
					r := res{p: p, err: err}
					if err == nil {
						r.data = read(f)
					}
					results[k] = r
				}(k, p)
			}
			wg.Wait()
			feats["concurrent-find"] = true
			for _, r := range results {
				if modelValid && r.p < c20Known {
					if !wasDirty[r.p] {
						if r.err != nil || r.data != rec[r.p].data {
							return fmt.Sprintf("step %d: concurrent Find(%s) of a clean entry: err=%v data=%q, recorded %q", step, c20Names[r.p], r.err, r.data, rec[r.p].data), feats
						}
					} else if listable(r.p) {
						if r.err != nil {
							return fmt.Sprintf("step %d: concurrent Find(%s): %v", step, c20Names[r.p], r.err), feats
						}
					} else if r.err == nil {
						return fmt.Sprintf("step %d: concurrent Find(%s) must re-list, listing fails, yet data %q was returned", step, c20Names[r.p], r.data), feats
					}
				}
				if r.err == nil && !c.Specials && r.p < c20Known && r.data != "" && r.data != w.content(r.p) {
					return fmt.Sprintf("step %d: concurrent Find(%s) served stale data %q, current %q", step, c20Names[r.p], r.data, w.content(r.p)), feats
				}
			}
			if modelValid {
				for p, d := range wasDirty {
					if d && listable(p) {
						record(p)
					}
				}
			}
		}
	}
	return "", feats
}

// c20Corrupt damages a cache file in a way that makes it malformed or truncated (never a
// well-formed file describing different but plausible entries).
func c20Corrupt(data []byte, kind string, pos int) []byte {
	lines := strings.SplitAfter(string(data), "\n")
	if len(lines) > 0 && lines[len(lines)-1] == "" {
		lines = lines[:len(lines)-1]
	}
	if len(lines) == 0 {
		return data
	}
	li := pos % len(lines)
	switch kind {
	case "truncate":
		return data[:pos%len(data)]
	case "dropline":
		return []byte(strings.Join(append(append([]string{}, lines[:li]...), lines[li+1:]...), ""))
	case "dupline":
		out := append([]string{}, lines[:li+1]...)
		out = append(out, lines[li])
		out = append(out, lines[li+1:]...)
		return []byte(strings.Join(out, ""))
	case "swaplines":
		if len(lines) < 2 {
			return data
		}
		lj := (li + 1) % len(lines)
		out := append([]string{}, lines...)
		out[li], out[lj] = out[lj], out[li]
		return []byte(strings.Join(out, ""))
	case "count-1", "count+1", "count-neg", "count-huge", "count-junk":
		// rewrite the dependency count of the header line at or after li
		for k := 0; k < len(lines); k++ {
			j := (li + k) % len(lines)
			if strings.HasPrefix(lines[j], "\t") {
				continue
			}
			parts := strings.Split(strings.TrimRight(lines[j], "\n"), "\t")
			if len(parts) != 4 {
				continue
			}
			n, _ := strconv.Atoi(parts[3])
			switch kind {
			case "count-1":
				parts[3] = strconv.Itoa(n - 1)
			case "count+1":
				parts[3] = strconv.Itoa(n + 1)
			case "count-neg":
				parts[3] = "-" + strconv.Itoa(n+1)
			case "count-huge":
				parts[3] = "9223372036854775807"
			case "count-junk":
				parts[3] = "x" + parts[3]
			}
			out := append([]string{}, lines...)
			out[j] = strings.Join(parts, "\t") + "\n"
			return []byte(strings.Join(out, ""))
		}
		return data
	case "droptab":
		if i := strings.IndexByte(lines[li], '\t'); i >= 0 {
			out := append([]string{}, lines...)
			out[li] = lines[li][:i] + lines[li][i+1:]
			return []byte(strings.Join(out, ""))
		}
		return data
	case "garbage":
		out := append([]string{}, lines[:li]...)
		out = append(out, "\x00garbage line without tabs\n")
		out = append(out, lines[li:]...)
		return []byte(strings.Join(out, ""))
	}
	return data
}

var c20CorruptKinds = []string{"truncate", "dropline", "dupline", "swaplines", "count-1", "count+1", "count-neg", "count-huge", "count-junk", "droptab", "garbage"}

func c20Nontrivial(feats map[string]bool) bool {
	if feats["find-after-change"] || feats["failed-listing"] || feats["export-file-deleted"] || feats["corrupt-load-reported"] {
		return true
	}
	for f := range feats {
		if strings.HasPrefix(f, "corrupt-load:") {
			return true
		}
	}
	return false
}

func TestC20(t *testing.T) {
	r := hx.Start(t, "C20")
	r.SetRule("rapid state machine over a scripted world (5 packages + 1 unknown, random dependency DAG, versions, fingerprints incl. \"?\"/\"\" specials, stub `go list`): ops find/prepare/bump/sethash/skipdep/delete-export-file/listing-fails/listing-malformed/save/load/corrupt-then-load (11 corruption kinds at generated positions)/concurrent finds (race detector on). Oracles: reference model of the cache (data served, error, exact number of listing runs per Find) and, with honest fingerprints, content freshness (data must equal the current export data). Non-trivial: the history has a Find of a package after a fingerprint change since its previous Find, or a fault (failed/malformed listing, deleted export file, corrupted cache file); distinct by (deps, ops).")
	r.Assume("package paths, export file names and fingerprints contain no tab/newline", "the stub models `go list -export`: one line per requested package, export file (re)built by listing, non-zero exit with stderr text on failure", "Save is a no-op when the cache never listed (documented)")
	defer r.Done()
	if r.Replay != "" {
		var c c20Case
		var lf struct {
			File *string `json:"file"`
		}
		if r.ReplayInput(&lf) == nil && lf.File != nil {
			c20ReplayLoad(r, *lf.File)
			return
		}
		if err := r.ReplayInput(&c); err != nil {
			t.Fatal(err)
		}
		if bad, _ := c20Exec(&c); bad != "" {
			r.Report(&c, "", "%s", bad)
		}
		r.Eval()
		return
	}
	for _, f := range r.Findings() {
		var c c20Case
		var lf struct {
			File *string `json:"file"`
		}
		if f.Replay == "" {
			continue
		}
		if r.LoadReplay(f, &lf) == nil && lf.File != nil {
			c20ReplayLoad(r, *lf.File)
			continue
		}
		if r.LoadReplay(f, &c) != nil {
			r.Note("cannot load replay of %s", f.ID)
			continue
		}
		bad, _ := c20Exec(&c)
		r.Eval()
		switch {
		case bad == "":
		case f.Status == "known" && f.Match(c20Sig(bad)):
			r.KnownLine(f)
		default:
			r.Report(&c, c20Sig(bad), "replay of %s finding %s: %s", f.Status, f.ID, bad)
		}
	}
	c20Search(t, r, "cache-vs-model", r.N(700, 20000), false)
	c20LoadFuzz(t, r)
}

// c20Sig reduces a disagreement message to its class (step numbers and names removed).
func c20Sig(bad string) string {
	switch {
	case strings.Contains(bad, "the listing fails, yet it returned data") || strings.Contains(bad, "listing fails, yet data"):
		return "stale-on-failed-listing"
	case strings.HasPrefix(bad, "panic:"):
		return "panic:" + strings.TrimPrefix(bad, "panic: ")
	case strings.Contains(bad, "served stale data"):
		return "stale-data"
	case strings.Contains(bad, "ran the listing command"):
		return "listing-count"
	}
	if i := strings.Index(bad, ": "); i >= 0 && strings.HasPrefix(bad, "step ") {
		return "other:" + bad[i+2:]
	}
	return "other:" + bad
}

// c20LoadFuzz: Load on arbitrary damaged files (no process spawn): never panics, and whatever it
// loads, an entry whose recorded own fingerprint no longer matches is never served.
func c20LoadFuzz(t *testing.T, r *hx.Run) {
	base := os.Getenv("VERIF_WORK")
	if base == "" {
		base = os.TempDir()
	}
	dir, err := os.MkdirTemp(base, "c20f-")
	if err != nil {
		return
	}
	defer os.RemoveAll(dir)
	valid := "a\t" + filepath.Join(dir, "a.a") + "\tH1\t2\n\tb\tH2\n\tc\tH3\nb\t" + filepath.Join(dir, "b.a") + "\tH2\t1\n\tc\tH3\nc\t" + filepath.Join(dir, "c.a") + "\tH3\t0\n"
	for _, n := range []string{"a", "b", "c"} {
		os.WriteFile(filepath.Join(dir, n+".a"), []byte(n+"@0"), 0o644)
	}
	r.Check(t, "load-damaged", r.N(3000, 200000), func(t *rapid.T) {
		data := []byte(valid)
		n := rapid.IntRange(1, 3).Draw(t, "nmut")
		var muts []string
		for i := 0; i < n; i++ {
			kind := pick(t, "kind", append([]string{"flipbyte", "insert"}, c20CorruptKinds...))
			pos := rapid.IntRange(0, 4000).Draw(t, "pos")
			switch kind {
			case "flipbyte":
				if len(data) > 0 {
					data = append([]byte{}, data...)
					data[pos%len(data)] ^= byte(1 << uint(rapid.IntRange(0, 7).Draw(t, "bit")))
				}
			case "insert":
				ins := pick(t, "ins", []string{"\t", "\n", "-", "9", "\x00", "\t\t", "99999999999999999999"})
				p := 0
				if len(data) > 0 {
					p = pos % len(data)
				}
				data = append(append(append([]byte{}, data[:p]...), ins...), data[p:]...)
			default:
				data = c20Corrupt(data, kind, pos)
			}
			muts = append(muts, fmt.Sprintf("%s@%d", kind, pos))
		}
		r.Eval()
		file := filepath.Join(dir, "f.cache")
		os.WriteFile(file, data, 0o644)
		c := cache.New(func(p string, self bool) string { return "changed" })
		var perr any
		var lerr error
		func() {
			defer func() { perr = recover() }()
			lerr = c.Load(file)
		}()
		if perr != nil {
			sig := "panic:load:" + fmt.Sprint(perr)
			if f := r.MatchKnown(sig); f != nil {
				r.Known(f)
				return
			}
			r.Fail(t, map[string]any{"file": string(data)}, sig, "Load panicked on a damaged cache file: %v\nfile=%q", perr, data)
		}
		if lerr != nil {
			r.Class("damaged-load-reported")
		} else {
			r.Class("damaged-load-accepted")
		}
		r.Nontrivial("load:" + string(data))
		r.Sample(func() any { return map[string]any{"mutations": muts, "load_error": fmt.Sprint(lerr)} })
	})
}

func c20ReplayLoad(r *hx.Run, data string) {
	dir, err := os.MkdirTemp("", "c20r-")
	if err != nil {
		return
	}
	defer os.RemoveAll(dir)
	file := filepath.Join(dir, "f.cache")
	os.WriteFile(file, []byte(data), 0o644)
	c := cache.New(func(p string, self bool) string { return "changed" })
	defer func() {
		if e := recover(); e != nil {
			r.Report(map[string]any{"file": data}, "panic:load:"+fmt.Sprint(e), "Load panicked on a damaged cache file: %v", e)
		}
	}()
	r.Eval()
	_ = c.Load(file)
}

func c20Search(t *testing.T, r *hx.Run, name string, n int, concurrent bool) {
	pk := rapid.IntRange(0, len(c20Names)-1)
	r.Check(t, name, n, func(t *rapid.T) {
		c := &c20Case{Specials: rapid.IntRange(0, 3).Draw(t, "specials") == 0}
		for i := 0; i < c20Known; i++ {
			var ds []int
			for j := i + 1; j < c20Known; j++ {
				if rapid.IntRange(0, 2).Draw(t, "edge") == 0 {
					ds = append(ds, j)
				}
			}
			c.Deps = append(c.Deps, ds)
		}
		add := func(op c20Op) { c.Ops = append(c.Ops, op) }
		actions := map[string]func(*rapid.T){
			"find":  func(t *rapid.T) { add(c20Op{Op: "find", Pkg: pk.Draw(t, "p")}) },
			"find2": func(t *rapid.T) { add(c20Op{Op: "find", Pkg: rapid.IntRange(0, 2).Draw(t, "p")}) },
			"prepare": func(t *rapid.T) {
				add(c20Op{Op: "prepare", Pkgs: rapid.SliceOfN(pk, 1, 3).Draw(t, "ps")})
			},
			// several packages listed by one Prepare, then a dependency of one of them changes and
			// that package is looked up: its entry must have kept its own dependencies
			"prepare-bump-find": func(t *rapid.T) {
				ps := rapid.SliceOfNDistinct(rapid.IntRange(0, c20Known-1), 2, 3, func(i int) int { return i }).Draw(t, "ps")
				add(c20Op{Op: "prepare", Pkgs: ps})
				p := ps[rapid.IntRange(0, len(ps)-1).Draw(t, "which")]
				if ds := c.Deps[p]; len(ds) > 0 {
					add(c20Op{Op: "bump", Pkg: ds[rapid.IntRange(0, len(ds)-1).Draw(t, "dep")]})
				}
				add(c20Op{Op: "find", Pkg: p})
			},
			"bump":  func(t *rapid.T) { add(c20Op{Op: "bump", Pkg: rapid.IntRange(0, c20Known-1).Draw(t, "p")}) },
			"bump2": func(t *rapid.T) { add(c20Op{Op: "bump", Pkg: rapid.IntRange(2, c20Known-1).Draw(t, "p")}) },
			"sethash": func(t *rapid.T) {
				if !c.Specials {
					t.Skip()
				}
				add(c20Op{Op: "sethash", Pkg: rapid.IntRange(0, c20Known-1).Draw(t, "p"), Val: pick(t, "hv", []string{"?", "", "X1", "X2"})})
			},
			"skipdep": func(t *rapid.T) {
				if !c.Specials {
					t.Skip()
				}
				add(c20Op{Op: "skipdep", Pkg: rapid.IntRange(0, c20Known-1).Draw(t, "p"), On: rapid.Bool().Draw(t, "on")})
			},
			"delexp":    func(t *rapid.T) { add(c20Op{Op: "delexp", Pkg: rapid.IntRange(0, c20Known-1).Draw(t, "p")}) },
			"fail":      func(t *rapid.T) { add(c20Op{Op: "fail", On: rapid.Bool().Draw(t, "on")}) },
			"malformed": func(t *rapid.T) { add(c20Op{Op: "malformed", On: rapid.Bool().Draw(t, "on")}) },
			"save":      func(t *rapid.T) { add(c20Op{Op: "save"}) },
			"load":      func(t *rapid.T) { add(c20Op{Op: "load"}) },
			"saveload": func(t *rapid.T) {
				add(c20Op{Op: "save"})
				add(c20Op{Op: "load"})
			},
			"corrupt": func(t *rapid.T) {
				if c.Specials {
					t.Skip()
				}
				add(c20Op{Op: "save"})
				add(c20Op{Op: "corrupt", Kind: pick(t, "kind", c20CorruptKinds), Pos: rapid.IntRange(0, 4000).Draw(t, "pos")})
			},
			"concurrent": func(t *rapid.T) {
				add(c20Op{Op: "concurrent", Pkgs: rapid.SliceOfN(pk, 2, 8).Draw(t, "ps")})
			},
		}
		if concurrent {
			for _, k := range []string{"concurrent2", "concurrent3", "concurrent4"} {
				actions[k] = actions["concurrent"]
			}
			for _, k := range []string{"corrupt", "sethash", "skipdep", "prepare", "prepare-bump-find", "find2", "saveload"} {
				delete(actions, k)
			}
		}
		t.Repeat(actions)
		bad, feats := c20Exec(c)
		r.Eval()
		if strings.HasPrefix(bad, "INFRA:") {
			t.Skip(bad)
		}
		if bad != "" {
			sig := c20Sig(bad)
			if f := r.MatchKnown(sig); f != nil {
				r.Known(f)
				return
			}
			r.Fail(t, c, sig, "%s", bad)
		}
		for f := range feats {
			r.Class(f)
		}
		if c.Specials {
			r.Class("specials-mode")
		}
		if c20Nontrivial(feats) {
			r.Nontrivial(fmt.Sprint(c.Deps, c.Specials, c.Ops))
		}
		r.Sample(func() any { return c })
	})
}

// TestC20Race runs histories dominated by concurrent lookups in a -race build.
func TestC20Race(t *testing.T) {
	r := hx.Start(t, "C20")
	defer r.Done()
	if r.Replay != "" {
		return
	}
	c20Search(t, r, "cache-concurrent-race", r.N(40, 1000), true)
}
