#!/usr/bin/env python3
"""Regenerates MANIFEST.json from the table below and validates it (and any evidence files) against the schemas."""
import json, os, sys, glob
ROOT = os.path.dirname(os.path.dirname(os.path.abspath(__file__)))

BASE_OFF = "for m in $(cat /w/out/gomods.txt); do MF=$(cd /repo/$m && . /w/out/goenv.sh && gomodflag); (cd /repo/$m && go test $MF -json -vet=off -count=1 -timeout 25m ./...); done"

# id -> (category, text, design_ref, level_note, technique)
CHECKS = {
 "C20": ("fault_enumeration",
         "Model-based state-machine testing with injected faults (rapid): histories of Find/Prepare (one and several packages, incl. the compound 'prepare several, change a dependency of one, look it up')/Save/Load over a scripted world (random dependency DAG, version bumps, fingerprints incl. the special values, deleted export files, failing and malformed listings through a stub `go` first on PATH that logs every call), 11 kinds of cache-file damage at generated positions followed by Load, and concurrent Finds in a -race build. Two oracles: a reference model of the cache (data, error, exact number of listing runs per Find) and content freshness (with honest fingerprints the served bytes must be the current export data). Plus a no-spawn search over damaged files that Load must survive. Fault enumeration is by sampling the (fault kind x position x history) space, not exhaustive.",
         "DESIGN.md §7 C20",
         "Trusts the stub's rendering of `go list -export` output, os file semantics, and that paths/fingerprints contain no tab or newline. Damage that yields a well-formed file describing different plausible entries (e.g. one flipped byte inside an export path) is outside 'malformed' and only checked for panics.",
         "property-based stateful testing against a reference model with fault injection (rapid), race detector"),
 "C02": ("exploration",
         "Generated valid programs (confirmed by go/types) are driven through the builder; the builder must report nothing, the output must type-check, and a canonical typed dump of the output (declarations, statement tree, operators, constant values, identifier bindings, expression types; formatting, parentheses, import names, declaration grouping and elided literal types abstracted away) must equal the dump of the source. Sampling.",
         "DESIGN.md §7 C02, §3",
         "Trusts go/types and the canonical dump (h/oracle/dump.go) as the definition of 'same program'; constructs outside the generator's grammar (cgo, build tags, methods of generic types, which the builder cannot declare) are not covered.",
         "property-based testing: generated programs, round-trip through the builder compared by canonical typed dump"),
 "C01": ("exploration",
         "Generated-program search with go/types as oracle (rapid): typed-by-construction programs and 30 kinds of type-breaking syntax mutations of them are driven through the builder by an own front end (h/drive) in the default and XGo-builtin configurations; if the builder accepts, every emitted file must parse and the package must type-check (unused variables/imports excepted). The many acceptance holes of the current tree are enumerated as known findings keyed by the exact go/types diagnostic class of the emitted code; anything else is a violation. Sampling of an unbounded program space.",
         "DESIGN.md §7 C01, §6",
         "Trusts go/types (go1.23) as the Go specification, go/parser, and the front end h/drive as a faithful rendering of how a compiler front end calls the builder. Known-finding matchers work at the granularity of go/types' diagnostic text incl. its context ('in send', 'in map index', ...).",
         "property-based testing: generated + mutated programs, differential against go/types on the emitted code"),
 "C03": ("exploration",
         "While generated valid programs are driven through the builder, the type on top of the operand stack after every sub-expression (and the reference type of every assignment target, and the scope entry of every name declared by :=, var, const, range and type switch) is compared with go/types' context-free type of the same source expression (types.CheckExpr keeps untyped kinds visible). Bottom-up, so a disagreement is reported at its innermost site. Sampling.",
         "DESIGN.md §7 C03",
         "Trusts go/types; call targets and generic-function bases are compared only through the call / instantiation result; expressions go/types cannot re-evaluate standalone are skipped (counted).",
         "property-based testing: generated programs, per-subexpression differential against go/types"),
 "C16": ("exploration",
         "Stateful invariant checking over generated well-nested, error-free operation histories (deep-nesting program profile, depth up to 8+): after every builder operation the operand-stack delta must equal the documented arity, after every completed statement the stack must be back at the statement's starting length, at every End the scope pointer, current function, vblock flag, stack length and the visible labels of the enclosing function must equal a snapshot taken when the construct was opened, a skipped constant expression statement injected before every third statement must leave the stack unchanged, and at the end the stack is empty, the scope is the package scope and no function is current. ~10^6 operations checked per quick run. Sampling.",
         "DESIGN.md §7 C16",
         "The arity table is the harness's (h/drive call sites); it was validated against the unchanged tree. Uses only public observers (InternalStack().Len, Scope, Func, InVBlock, LookupLabel) - no hook needed. Error-recovery histories are outside the quantifier; an imbalance observed on the error-free prefix of a history that a later panic aborts is reported.",
         "property-based stateful testing: invariants checked after every step of generated operation histories"),
 "C17": ("exploration",
         "Hostile-input search under three configurations (default, XGo-builtin, bare): a deterministic operation x operand-kind grid (every template with every ill-typed operand kind; thorough tier enumerates it completely), random extreme constant trees, nesting up to 3000 deep, and multi-mutation mutants of valid programs. A recovered panic carrying a runtime.Error (or a non-error, non-string value) is a violation; the worker has a 6 GiB address-space limit and a 180 s per-case watchdog, and a worker death is a violation only when it reproduces with the case run alone; nesting families must not need more than x160 the CPU time for x4 the size (process CPU time, best of three measurements; a cubic algorithm needs x64).",
         "DESIGN.md §7 C17",
         "Reported errors of any kind (incl. log.Panicln TODO messages) count as clean rejections. Time is a verdict only as the hang watchdog (confirmed in isolation) and as the CPU-time scaling bound (three measurements). The cubic cost of printing deeply nested function literals (stock gofmt is linear) is below the stated bound and documented, not asserted.",
         "fuzzing-style generated search with a run-time-fault oracle; exhaustive small-scope grid in the thorough tier"),
 "C10": ("exploration",
         "Function bodies generated from a control-flow grammar (all statement forms that matter for termination analysis and labels, closures with their own label space, shadowed panic) are confirmed by go/types to contain no error other than 'missing return', 'label declared and not used', 'label already declared'; the multiset of these diagnostics reported by go/types must equal the multiset delivered by the builder (error handler and panics). Sampling of an unbounded grammar.",
         "DESIGN.md §7 C10",
         "Trusts go/types' implementation of the specification's terminating-statement and label rules. For a body that declares a label twice only the duplicate diagnostics are compared (which statement the label binds to is then undefined).",
         "property-based testing: grammar-based generation, differential against go/types diagnostics"),
 "C05": ("exploration",
         "Small-scope exhaustive enumeration of a closed universe: 70 typed types plus the 7 untyped kinds; ALL ordered pairs for the public predicates AssignableTo, AssignableConv, ConvertibleTo, ComparableTo (both operand orders; symmetry checked as its own law) and ALL (type x 48 boundary constants) points, against types.AssignableTo/ConvertibleTo and go/types on batched one-statement programs; then the same question through 13 constructs (var init, assignment, call argument, return, slice/array/map/struct literal elements, send, case, ==, conversion) on the whole (construct x V x T) and (construct x constant x T) grid (107k one-statement programs; thorough tier complete, quick tier one residue class mod 7 chosen by the seed). The ~18k grid points at which the tree deviates are listed exactly, point by point, in known-finding files; any other point is a violation.",
         "DESIGN.md §7 C05",
         "go/types is the oracle. Exhaustive only for the stated universe and constant list (chosen to contain every boundary of every integer and float kind).",
         "exhaustive small-scope enumeration (finite grid) against go/types; known deviations pinned point by point"),
 "C04": ("exploration",
         "Generated constant-expression trees (every untyped kind, typed constants of every basic kind, boundary and > 64-bit values, all operators, shifts with every kind of count, len/cap/min/max/complex/real/imag/unsafe.*, conversions, non-constant look-alikes) are placed in const declarations, iota blocks, var initialisers and array lengths and driven through the builder with the per-subexpression tracer: a constant expression go/types rejects must be rejected; otherwise the builder's constant value must be present exactly when go/types has one and be exactly equal, and declared constants and array lengths must agree. Deviations of the tree (typed-constant folding, conversions keeping the operand's value, builtin constant-ness, big-number typing of the XGo configuration) are listed findings. Plus const blocks whose specs (1-2 names, expressions over iota, implicit repetitions) are resolved in a random order through the position API (NewPos / NewAt / NextAt): every constant the builder declares must have the value go/types computes for the written block.",
         "DESIGN.md §7 C04",
         "go/types and go/constant are the oracle; both sides compute with go/constant, so agreement in its last bits is by construction. unsafe sizes follow go/types' gc sizes for the host.",
         "property-based testing: grammar-based constant expressions, per-subexpression differential against go/types/go/constant"),
 "C11": ("exploration",
         "One extension construct per case, driven through the public CodeBuilder API inside a function whose package-level context is ordinary Go: all 49 registered builtin-type methods on variable / literal / named / call-result / chained receivers with variable and constant arguments in assignment, definition, if / for / switch and argument contexts; member chains of 1-3 steps on string-keyed maps, named maps (incl. a method that shadows a key), struct fields, call results, pointers to maps and any values, read in nine statement contexts (incl. conditions with and without a user init statement, loop bodies, closures, range and type-switch headers), assigned through, and in the comma-ok form; bool-to-number casts of variables, named bools, calls, comparisons and constants to every basic number type; optional parameters (0-2 positional, 1-3 optional of 18 types, variadic tail, methods, another package's functions marked by name) with every argument count incl. too few / too many; lower-case aliases and auto-properties on value, pointer, embedded and interface receivers incl. exact-name shadowing; enumerators of every documented shape (Next with 1 or 2 values, pointer receivers, legacy name, iterator functions with 0-2 values, named function types) with every loop-variable form and break / continue / nested bodies; inline closure calls with 0-2 parameters, variadic tails (packed and spread), 0-2 results, early return, side-effecting arguments; big integer / rational literals around the int64, uint64 and 128-bit boundaries; tuples (named and unnamed, through pointers): members by ordinal and by name, read and assigned, tuple literals, tuple casts. Oracle: the output must type-check under go/types and its canonical typed dump (locals and generated labels alpha-renamed) must equal the dump of a reference lowering written in the harness as Go source from the documentation; big literals are evaluated from the emitted expression with math/big and must equal the written value exactly. Constructs the documentation does not define (marked in the plan) must be rejected or yield Go that type-checks.",
         "DESIGN.md §7 C11",
         "The reference lowerings are the documented desugarings (doc comments, repository examples); where two shapes have the same meaning (assertion in the init clause or before the statement; result variables assigned together or one by one) each is accepted. go/types is the oracle for type-correctness. Constant boolean folding is left to C02.",
         "property-based testing: per-feature construct generators, differential against independently written reference lowerings (canonical typed dump) and a math/big evaluator"),
 "C12": ("exploration",
         "Round-trip and canonical-form testing of the printer through a verif-tagged hook: position-less syntax trees from a syntax grammar (all operator precedence/associativity combinations, unary-after-unary/binary chains, channel- and function-typed conversions, literals, every statement and declaration kind, type parameters, tags), from G-valid programs, from the builder's own trees (Package.ASTFile vs WriteTo) and from every parsable file under GOROOT/src (thorough: all ~4900, quick: 1/20 chosen by the seed), with all parentheses around operator operands removed and 0-3 statement comment groups. Oracles: parse(print(t)) structurally equals t; go/format.Source(text) == text; each comment printed once, on the line directly before its statement.",
         "DESIGN.md §7 C12",
         "go/parser and go/format (go1.23) define 'parses back' and 'canonical'. Position-less comments are supplied the way the repository's tests supply them (text beginning with a line break); comments carrying source positions (XGo's usage) are not asserted.",
         "property-based round-trip testing (generated + corpus inputs), metamorphic gofmt fixed-point oracle"),
 "C13": ("exploration",
         "Types are drawn from a recursive generator (depth <= 5 and beyond through nesting: all basic kinds, unsafe.Pointer, local named/alias/generic and imported named types, pointers, slices, arrays, maps, channels of every direction, functions, structs with embedding and awkward tags, interfaces, instantiations, type parameters), built with the go/types API inside a builder package, declared through the builder as variable type, alias, parameter, variadic parameter, result and generic-function parameter; the emitted package is type-checked and the canonical form of every declared type must equal that of the original. Sampling. A second part generates constraint interfaces (one embedded union of 1-4 terms over 21 term types with ~ on any term, optionally comparable, a method, an embedded interface), declared as the underlying type of a type declaration and as the constraint of a type parameter: the emitted interface must denote the same type set (canonical form of the union, ~ per term).",
         "DESIGN.md §7 C13",
         "go/types is the oracle of type identity; h/oracle.TypeKey is the canonical form; types whose go/types reference rendering is itself rejected are discarded (counted).",
         "property-based round-trip testing (generate type -> emit through builder -> re-check -> compare canonical forms)"),
 "C14": ("exploration",
         "For generated value types the zero value the builder synthesises is checked in five uses: Package.Zero's reported type must be identical to T; `var Z T = zero`, `x := zero`, ReturnErr padding, the zero-argument conversion T() and an omitted optional argument are emitted and type-checked: go/types must accept them and x must get a type identical to T. Plus a closed grid, enumerated completely, of delay-loaded named types (Config.LoadNamed: NewType without InitType when the zero value is asked for; 15 underlying types x through an alias or not x ReturnErr / ZeroLit / Zero): the written package must type-check. Sampling for the generated part.",
         "DESIGN.md §7 C14",
         "go/types is the oracle; 'evaluates to the zero value' is judged by form (literal 0/\"\"/false, nil, element-less composite literal), not by execution.",
         "property-based testing: generated types, emitted zero values differential-checked with go/types"),
 "C08": ("exploration",
         "Generated type graphs (structs and interfaces with colliding field/method names at equal and different embedding depths, value and pointer embedding, value/pointer receivers, a struct and an interface of another package with exported and unexported members) crossed with a selector name and an operand mode (variable, pointer, call result, map element, assignment target, method expression T.m / (*T).m, method value), one selector per program, driven through the builder: accept/reject must agree with go/types; for accepted selectors the expression type, the selection (kind + index path, via the canonical dump of the emitted code) and the object handed to Recorder.Member must agree. Sampling.",
         "DESIGN.md §7 C08",
         "go/types is the specification of selector resolution; methods are variadic or not (visible in method values and method expressions); empty interfaces are excluded (member access on `any` is an XGo extension, C11).",
         "property-based testing: generated type graphs and selectors, differential against go/types"),
 "C18": ("exploration",
         "Rounds of 16-48 different generated programs are built simultaneously, each on its own goroutine with its own FileSet, Package and importer, each registering extra methods in its own builtin-type tables (as front ends do), released together, under varying GOMAXPROCS, in a -race build; the runner turns any data-race report of a worker into a violation, every program's output must be byte-equal to its sequential build, and a method registered in one package's builtin-type table must not be visible in another package (leak probe). Exploration of the schedules that occur, not of all interleavings: the harness does not own the Go scheduler.",
         "DESIGN.md §7 C18, §11",
         "Relies on the Go race detector (reports unsynchronised conflicting accesses that actually happen in the observed execution). A write to a shared singleton that every build performs is observed with near certainty; a race that needs a rare program feature on two goroutines at once may be missed.",
         "concurrent stress testing under the race detector with a sequential-equivalence oracle"),
 "C15": ("exploration",
         "Generated multi-file packages that put at least two items into every unordered collection the builder keeps (imports per file, files, overload families and overloaded named types of imported XGo packages, XGo dependency packages of exported signatures incl. two with the same package name, 2-3 blank imports per file, commented statements) are built repeatedly: K times with a fresh importer per build, K times with one importer shared by all builds (K = 8 quick, 24 thorough), and in two child processes for every 8th history; all written files must be byte-identical. Metamorphic repetition, sampling of histories. One case in six reaches the XGo packages only through a plain Go package (an exported function declared through the API with the result tuple of a function of that package), and with the shared importer an unrelated package that imports the XGo packages directly is built between the builds.",
         "DESIGN.md §7 C15",
         "Go randomises map iteration per range statement, so K repetitions miss a two-way order dependence with probability 2^-(K-1); dependence on pointer values or time would show as differences between processes.",
         "property-based metamorphic testing: repeated builds of generated histories, within and across processes"),
 "C09": ("exploration",
         "Model-based state-machine testing (rapid) over a three-file package and seven synthetic packages (three with the same base name): switch file, reference values/types/functions from bodies, initialisers, signatures and type declarations, force-import, declare colliding names at package level and as parameter/result/:=/var/range/type-switch variable around a later reference, discard references, declare _autoGo_N, write mid-history and continue. After every write: all files type-check together (unused imports are violations; unique exported names make a wrong qualifier ill-typed), import set == model per file, names unique and different from declared package-level identifiers.",
         "DESIGN.md §7 C09",
         "A declaration that collides with an import name chosen at an earlier write is outside the domain (the earlier file was valid when written). ForEachFile order is not compared.",
         "property-based stateful testing against a reference model of the import sets, go/types on the written files"),
 "C07": ("exploration",
         "One call of / reference to one of 21 generic functions (all constraint kinds, type parameters at depth inside slices, maps, pointers, channels, functions and generic structs, variadic tails, un-inferable parameters) per generated program, with arguments drawn from typed values, untyped constants of every kind, nil, literals, generic function values, nested generic calls, optional full/partial explicit instantiation, spread, typed result contexts and assignment to typed function variables. go/types decides accept/reject (must agree); for accepted programs the builder's reported result/reference type must equal go/types' and the canonical dump of the emitted code, which includes Info.Instances of every generic callee, must equal the source's. Plus histories of 2-5 generic calls issued in one package through CallWithEx (which returns the error of a rejected call): verdict and result type of every call must equal those of the call alone as decided by go/types, in particular after rejected calls.",
         "DESIGN.md §7 C07",
         "go/types (go1.23) is the oracle; inference itself is go/types' routine reached through linkname, the adapter around it is what is tested.",
         "property-based testing: generated generic calls, differential against go/types (verdict, Info.Instances, types)"),
 "C06": ("exploration",
         "Generated overload families of 1-6 and 11-14 candidates (so that the letters of the 0-9a-z suffix alphabet are reached) in a synthetic XGo package (package functions by __k suffix, XGoo_ tables with explicit names and empty slots, methods on value and pointer receivers, methods of an interface type, overloaded binary operators of a named type written `vt + y`, overloaded type casts of a named type written `ovl.C(args)`; fixed, variadic, generic and untyped-constant-accepting parameters; each candidate returns its own result type; candidates with a big-number parameter followed by a never-satisfiable parameter, which rewrite an untyped constant argument before they fail, under the XGo configuration) crossed with generated argument lists (typed values, boundary untyped constants, nil, function literals, a generic function value, typed constants). Reference model: candidate k is applicable iff go/types accepts an explicit call of it; expected = least applicable k. The emitted callee, the Recorder.Call object and the reported result type must be candidate expected's, none applicable => rejected, the emitted call type-checks, and the emitted argument expressions equal those of a direct call of the chosen candidate built in a fresh package (no residue of rejected candidates).",
         "DESIGN.md §7 C06",
         "go/types decides applicability; suffix families are contiguous from 0 (documented precondition). Overloaded generic named types (Foo__0[T], Foo__1[K, V], selected by Instantiate) and unary-operator methods (which cannot be overloaded by arguments) are exercised by C15's histories but not modelled here; C() of a cast family without a zero-parameter candidate is the zero-value form (C14).",
         "property-based testing with a reference model of overload resolution derived from go/types; metamorphic no-residue relation"),
 "C19": ("exploration",
         "Model-based state-machine testing (rapid): random Set/Delete/At/Len/Keys/Iterate/String histories over a pool of generated type keys containing structurally identical but pointer-distinct rebuilds, aliases, permuted/flattened interfaces, permuted unions, renamed type parameters, separately created instantiations, deliberate hash-collision twins and same-named foreign types; after every step every observable is compared with an association list over types.Identical, and Identical=>equal-hash is checked on all pool pairs. Sampling, not proof: right level because the property quantifies over unbounded histories and type shapes.",
         "DESIGN.md §7 C19",
         "Trusts go/types.Identical as the definition of type identity and the go/types constructors to build well-formed keys; generic signatures occur only at top level (as Go source allows).",
         "property-based stateful testing against a reference model (rapid), pairwise hash law"),
}

NOT_YET = "check not built yet in this session (planned in DESIGN.md §7); not claimed until it runs green on the unchanged tree"

def main():
    props = [json.loads(l)["id"] for l in open(os.path.join(ROOT, "properties.jsonl"))]
    checks, na = [], []
    for pid in props:
        if pid in CHECKS:
            cat, text, ref, note, tech = CHECKS[pid]
            checks.append({
                "property_id": pid,
                "quick_cmd": f"./check {pid} --tier quick",
                "thorough_cmd": f"./check {pid} --tier thorough",
                "evidence_file": f"/verif/evidence/{pid}.json",
                "replay_cmd_template": f"./check {pid} --replay {{path}}",
                "engine": "vcheck",
                "level_claimed": {"category": cat, "text": text, "design_ref": ref},
                "level_note": note,
                "technique": tech,
            })
        else:
            na.append({"property_id": pid, "reason": NA.get(pid, NOT_YET)})
    hooks_commits = [l.strip() for l in open(os.path.join(ROOT, "hooks_commits.txt"))] if os.path.exists(os.path.join(ROOT, "hooks_commits.txt")) else []
    m = {
        "version": 1,
        "setup_cmd": "cd /verif && GOFLAGS= GOPROXY=off GOSUMDB=off GOTOOLCHAIN=local GOWORK=off go build -mod=mod -o .bin/vcheck ./cmd/vcheck && GOFLAGS= GOPROXY=off GOSUMDB=off GOTOOLCHAIN=local GOWORK=off go test -c -mod=mod -tags verif -vet=off -o .bin/setup.test ./h/props",
        "hooks": {
            "guard": "verif",
            "enable": "go test -c -mod=mod -tags verif ./h/props (module verif, replace github.com/goplus/gogen => /repo)",
            "baseline_off_cmd": BASE_OFF,
            "source_commits": hooks_commits,
            "add_only": True,
        },
        "engines": [{"name": "vcheck", "path": "/verif/cmd/vcheck", "serves_properties": sorted(CHECKS),
                     "kind_free_text": "Go runner: rebuilds the rapid-based property test binary (h/props) against /repo's working tree, runs seeded shards on up to 16 cores, merges statistics into evidence, prints KNOWN-FINDING / VIOLATION lines"}],
        "checks": checks,
        "not_applicable": na,
        "notes": "All checks are property-based tests / fuzzing-style generated searches (pgregory.net/rapid v1.3.0, exhaustive small-scope grids) against go/types or reference models. Exit 2 = inconclusive (build failure, shard death/timeouts), never a violation.",
    }
    json.dump(m, open(os.path.join(ROOT, "MANIFEST.json"), "w"), indent=1)
    try:
        import jsonschema
    except ImportError:
        print("jsonschema not available; run with python3-vt to validate"); return
    jsonschema.validate(m, json.load(open("/root/.vp/MANIFEST.schema.json")))
    es = json.load(open("/root/.vp/EVIDENCE.schema.json"))
    for f in sorted(glob.glob(os.path.join(ROOT, "evidence", "*.json"))):
        jsonschema.validate(json.load(open(f)), es)
    print("MANIFEST.json valid; checks:", [c["property_id"] for c in checks], "evidence files valid:", len(glob.glob(os.path.join(ROOT, "evidence", "*.json"))))

NA = {}
if __name__ == "__main__":
    main()
