#!/usr/bin/env python3
"""Regenerates the findings tables of DESIGN.md (between the FINDINGS markers) from known_findings.json."""
import json, os, re
ROOT = os.path.dirname(os.path.dirname(os.path.abspath(__file__)))
kf = json.load(open(os.path.join(ROOT, "known_findings.json")))["findings"]
def esc(s): return s.replace("|", "\\|").replace("\n", " ")
out = []
out.append("#### Open findings (status `known`: printed as `KNOWN-FINDING`, exit 0; anything else is a violation)\n")
out.append("| id | property | what fails | root cause | matched by |")
out.append("|---|---|---|---|---|")
for f in kf:
    if f["status"] != "known": continue
    how = []
    if f.get("sigs"): how.append(f"{len(f['sigs'])} signature pattern(s)")
    if f.get("points"): how.append("exact point list `%s`" % f["points"])
    if f.get("avoid"): how.append("generator avoids: " + ", ".join(f["avoid"]))
    out.append(f"| {f['id']} | {f['property']} | {esc(f['what'])} | {esc(f.get('root_cause',''))} | {'; '.join(how)} |")
out.append("")
out.append("#### Repaired defects (status `fixed`: the replay must pass; a return of the failure is a violation)\n")
out.append("| id | property | commit in /repo | what failed | replay |")
out.append("|---|---|---|---|---|")
for f in kf:
    if f["status"] != "fixed": continue
    what = re.sub(r"^fixed: property=\S+ \S+ ", "", f["what"])
    out.append(f"| {f['id']} | {f['property']} | {f.get('commit','')} | {esc(what)} | `{f.get('replay','')}` |")
text = "\n".join(out) + "\n"
p = os.path.join(ROOT, "DESIGN.md")
s = open(p).read()
a, b = "<!-- FINDINGS:BEGIN -->\n", "<!-- FINDINGS:END -->"
i, j = s.index(a) + len(a), s.index(b)
open(p, "w").write(s[:i] + text + s[j:])
print("findings tables:", sum(1 for f in kf if f['status']=='known'), "known,", sum(1 for f in kf if f['status']=='fixed'), "fixed")
