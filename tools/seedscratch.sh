#!/bin/bash
# tools/seedscratch.sh <seeded/ID/variant dir> [check ids...] : like tools/seedrun.sh, but leaves /repo and /verif alone:
# the change is applied to a scratch worktree of /repo (/tmp/sv/repo-seed) and the checks run from a copy of /verif
# (/tmp/sv/verif-seed, go.mod replace pointing at the scratch worktree), so that checks can be developed in /verif
# meanwhile. Results go to result.json next to the patch (field "where": "scratch").
set -u
cd "$(dirname "$0")/.." || exit 2
V=$PWD; dir=$1; shift
R=/tmp/sv/repo-seed${SCR:-}; S=/tmp/sv/verif-seed${SCR:-}
[ -f "$dir/patch.diff" ] || { echo "no patch in $dir"; exit 2; }
mkdir -p /tmp/sv
[ -d $R ] || git -C /repo worktree add -q --detach $R HEAD || exit 2
git -C $R checkout -q --detach "$(git -C /repo rev-parse HEAD)" && git -C $R checkout -- . && git -C $R clean -fdq
rsync -a --delete --exclude .git --exclude .work --exclude .bin --exclude evidence "$V"/ $S/
mkdir -p $S/evidence
sed -i "s#=> /repo#=> $R#" $S/go.mod
prop=$(python3 -c "import json,sys; print(json.load(open('$dir/meta.json'))['property'])" 2>/dev/null)
checks=("$@"); [ ${#checks[@]} -eq 0 ] && checks=("$prop")
git -C $R apply "$V/$dir/patch.diff" || { echo "patch does not apply"; exit 2; }
tier=${SEED_TIER:-quick}
for id in "${checks[@]}"; do
  (cd $S && VERIF_ROOT=$S ./check "$id" --tier "$tier") > "$dir/.run.out" 2>&1; rc=$?
  python3 - "$dir" "$id" "$rc" "$tier" <<'PY' 2>/dev/null
import json, os, sys
d, cid, rc, tier = sys.argv[1], sys.argv[2], int(sys.argv[3]), sys.argv[4]
out = open(os.path.join(d, ".run.out"), errors="replace").read().splitlines()
viol = [i for i, l in enumerate(out) if l.startswith("VIOLATION")]
first = " ".join(x.strip() for x in out[viol[0]:viol[0]+3])[:400] if viol else ""
p = os.path.join(d, "result.json")
res = json.load(open(p)) if os.path.exists(p) else {}
res[cid] = {"exit": rc, "violation_lines": len(viol), "tier": tier, "first": first, "summary": out[-1] if out else "", "where": "scratch"}
json.dump(res, open(p, "w"), indent=1)
print(d, cid, "rc=%d" % rc, "violations=%d" % len(viol), first[:160])
PY
  rm -f "$dir/.run.out"
done
git -C $R checkout -- . ; git -C $R clean -fdq
