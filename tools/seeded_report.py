#!/usr/bin/env python3
"""Regenerates DESIGN.md §13.5 (between the SEEDED markers) from seeded/*/*/{meta,result,confirm}.json."""
import json, os, glob
ROOT = os.path.dirname(os.path.dirname(os.path.abspath(__file__)))
def esc(s): return str(s).replace("|", "\\|").replace("\n", " ")
rows, caught, total = [], 0, 0
for d in sorted(glob.glob(os.path.join(ROOT, "seeded", "C*", "*"))):
    if not os.path.exists(os.path.join(d, "patch.diff")): continue
    rel = os.path.relpath(d, ROOT)
    meta = json.load(open(os.path.join(d, "meta.json"))) if os.path.exists(os.path.join(d, "meta.json")) else {}
    res = json.load(open(os.path.join(d, "result.json"))) if os.path.exists(os.path.join(d, "result.json")) else {}
    conf = json.load(open(os.path.join(d, "confirm.json"))) if os.path.exists(os.path.join(d, "confirm.json")) else {}
    prop = meta.get("property", rel.split("/")[1])
    total += 1
    own = res.get(prop)
    by = [f"{k} ({v.get('tier','quick')})" for k, v in sorted(res.items()) if v.get("exit") == 1 and v.get("violation_lines", 0) > 0]
    missed = [k for k, v in sorted(res.items()) if v.get("exit") == 0]
    status = "caught by " + ", ".join(by) if by else ("MISSED" if res else "not run")
    if missed and by:
        status += " (not by " + ", ".join(missed) + ")"
    if by: caught += 1
    hist = meta.get("history", "")
    confirm = ""
    if conf:
        confirm = "suite %s; demo fails with / passes without: %s/%s" % (conf.get("suite"), conf.get("demo_with_patch") == "fail", conf.get("demo_without_patch") == "pass")
    elif meta.get("suite_passes") is True:
        confirm = "suite passed in the sub-agent's worktree (not re-run by the coordinator for lack of time)"
    rows.append(f"| `{rel}` | {esc(meta.get('title',''))} | {esc(', '.join(meta.get('files', [])))} | {status}{'; ' + hist if hist else ''} | {confirm} |")
out = [f"{total} seeded changes (four per property: variants a, b from round 1, c, d from round 2; each written by a fresh sub-agent that saw only the property text and a scratch worktree), {caught} caught by a registered check.\n",
       "| change | what it breaks | file | outcome | confirmation in a scratch worktree |", "|---|---|---|---|---|"] + rows
p = os.path.join(ROOT, "DESIGN.md")
s = open(p).read()
a, b = "<!-- SEEDED:BEGIN -->\n", "<!-- SEEDED:END -->"
i, j = s.index(a) + len(a), s.index(b)
open(p, "w").write(s[:i] + "\n".join(out) + "\n" + s[j:])
print(total, "seeded,", caught, "caught")
