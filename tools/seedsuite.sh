#!/bin/bash
# tools/seedsuite.sh <seeded dir> : confirms a seeded change in a scratch worktree of /repo (under /tmp):
# it must apply, build (with and without -tags genjs), pass the repository's suite, and its demo must fail
# with the change and pass without it. Writes confirm.json into the seeded dir; removes the worktree.
set -u
dir=$(cd "$1" && pwd); name=$(echo "$dir" | tr '/' '_')
wt=/tmp/sv/$name
rm -rf "$wt"; mkdir -p /tmp/sv
git -C /repo worktree add -q --detach "$wt" HEAD || exit 2
cd "$wt" || exit 2
export GOPROXY=off GOSUMDB=off GOTOOLCHAIN=local; unset GOFLAGS
applies=false; builds=false; suite=unknown; demo_with=unknown; demo_without=unknown
demo=$(python3 -c "import json;print(json.load(open('$dir/meta.json')).get('demo',''))" 2>/dev/null)
demofiles=$(ls "$dir"/*_test.go 2>/dev/null)
pkgdir=$(python3 -c "import json,os;m=json.load(open('$dir/meta.json'));print(m.get('demo_dir','.'))" 2>/dev/null)
run_demo() { # copies demo files, runs them, removes them
  for f in $demofiles; do cp "$f" "$wt/$pkgdir/"; done
  (cd "$wt/$pkgdir" && timeout 900 go test -vet=off -count=1 -run 'Seed|Demo|ZZ|Zz' . > "$dir/demo_$1.log" 2>&1); rc=$?
  for f in $demofiles; do rm -f "$wt/$pkgdir/$(basename $f)"; done
  return $rc
}
if run_demo without; then demo_without=pass; else demo_without=fail; fi
if git apply "$dir/patch.diff" 2>"$dir/apply.log"; then applies=true; fi
if $applies; then
  if go build ./... >"$dir/build.log" 2>&1 && go build -tags genjs . >>"$dir/build.log" 2>&1; then builds=true; fi
  if run_demo with; then demo_with=pass; else demo_with=fail; fi
  if $builds && [ "${SKIP_SUITE:-}" = "" ]; then
    if timeout 3000 go test -vet=off -count=1 -timeout 45m ./... > "$dir/suite.log" 2>&1; then suite=pass; else suite=fail; fi
  fi
fi
cd /; git -C /repo worktree remove --force "$wt"
python3 - <<PY
import json
json.dump({"applies": "$applies"=="true", "builds": "$builds"=="true", "suite": "$suite", "demo_with_patch": "$demo_with", "demo_without_patch": "$demo_without"}, open("$dir/confirm.json","w"), indent=1)
print("$dir", open("$dir/confirm.json").read().replace("\n"," "))
PY
