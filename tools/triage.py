#!/usr/bin/env python3
"""Development aid: run a check, and turn every VIOLATION it reports into a *candidate* known-finding entry
(printed, and with --write appended to known_findings.json after manual review of the printed list).
Never used by registered commands."""
import json, os, re, subprocess, sys, glob, shutil
ROOT = os.path.dirname(os.path.dirname(os.path.abspath(__file__)))
pid = sys.argv[1]
write = "--write" in sys.argv
env = dict(os.environ)
subprocess.run(["./check", pid], cwd=ROOT, env=env, stdout=subprocess.DEVNULL)
kf_path = os.path.join(ROOT, "known_findings.json")
kf = json.load(open(kf_path))
existing = [f for f in kf["findings"] if f["property"] == pid]
n = len(existing)
seen = set()
def generalise(sig):
    s = re.escape(sig)
    s = s.replace("\\ ", " ")
    s = re.sub(r"\bID\b", ".*", s)
    return s
for sf in sorted(glob.glob(os.path.join(ROOT, ".work", pid, "shard-*.json"))):
    d = json.load(open(sf))
    for v in d.get("violations") or []:
        sig = v.get("sig", "")
        if sig in seen: continue
        seen.add(sig)
        n += 1
        fid = f"F-{pid}-{n:02d}"
        rp = f"replays/{fid}.json"
        entry = {"id": fid, "property": pid, "status": "known", "what": v["msg"].split("\n")[0][:300], "root_cause": "", "replay": rp, "sigs": [generalise(sig)]}
        print(json.dumps(entry, indent=1))
        print("   MSG:", v["msg"][:1500])
        if write:
            json.dump(json.loads(v["replay"]) if isinstance(v["replay"], str) else v["replay"], open(os.path.join(ROOT, rp), "w"), indent=1)
            kf["findings"].append(entry)
if write:
    json.dump(kf, open(kf_path, "w"), indent=1)
for f in glob.glob(os.path.join(ROOT, "replays", pid + "-*.json")):
    if re.search(r"-[0-9a-f]{12}\.json$", f): os.remove(f)
