#!/usr/bin/env python3
"""One-off helper that (re)writes the C11 entries of known_findings.json (the replay files are written with TestC11Find)."""
import json, os
ROOT = os.path.dirname(os.path.dirname(os.path.abspath(__file__)))
FIXED = [
 ("named-bool-cond", "079c1c3", "a condition of a named boolean type was rejected in if and for statements (non-boolean condition), so the documented lowering of a bool cast of a named bool value, func() T { if mb { return 1 } else { return 0 } }(), could not be built", "stmt.go ifStmt.Then / forStmt.Then: AssignableTo(cond, bool)"),
 ("const-bool-cast", "3a532a2", "the cast of a constant bool, uint8(true), was emitted as the untyped literal 1: v := uint8(true) declared an int", "ast.go CastFromBool"),
 ("enum-missing-value", "7a35ea3", "for k := range udt / for range udt over an enumerator whose Next returns (key, value, ok) left a nil expression in the assignment and the printer dereferenced it", "util_gengo.go emitForRangeStmt"),
 ("range-blank-define", "f8e1413", "ForRange(\"_\", \"_\") over a slice, map or iterator-function enumerator emitted for _, _ := range x, which Go rejects (no new variables)", "util_gengo.go emitForRangeStmt"),
 ("any-chain-if", "db1095b", "a member chain with two or more steps on any values in an if condition panicked with 'if statement has too many init statements'", "stmt.go ifStmt.Then"),
 ("any-chain-switch", "db1095b", "a member chain with two or more steps on any values as a switch tag panicked with 'switch statement has too many init statements'", "stmt.go switchStmt.Then"),
 ("any-chain-typeswitch", "de7c2d2", "a member chain with two or more steps on any values as a type switch guard panicked with 'type switch statement has too many init statements'", "stmt.go typeSwitchStmt.TypeAssertThen"),
 ("any-for-cond", "dd63f5b", "member access on an any value in a for condition put the assertion in the init clause: it ran once, and two assertions were rejected", "stmt.go forStmt.Then"),
 ("named-map-assign", "9dc83d4", "nm.x = v for nm of a named string-keyed map type was rejected although the value nm.x is nm[\"x\"]", "codebuild.go refMember"),
 ("pointer-map-assign", "e72daa2", "pm.x = 1 for pm of type *map[string]int was emitted as pm[\"x\"] = 1, which does not compile", "codebuild.go refMember"),
 ("inline-arg-order", "70f55ae", "an inline closure call bound its arguments right to left: f(g1(), g2()) evaluated g2 first", "codebuild.go CallInlineClosureStart"),
 ("inline-exprstmt", "da7ebce", "expression statements in the body of an inline closure call with arguments were dropped from the output", "codebuild.go CallInlineClosureStart / inlineClosureEnd"),
]
p = os.path.join(ROOT, "known_findings.json")
kf = json.load(open(p))
kf["findings"] = [f for f in kf["findings"] if not f["id"].startswith("F-C11-")]
for name, commit, what, root in FIXED:
    rp = f"replays/F-C11-{name}.json"
    assert os.path.exists(os.path.join(ROOT, rp)), rp
    kf["findings"].append({"id": f"F-C11-{name}", "property": "C11", "status": "fixed", "commit": commit,
                           "what": f"fixed: property=C11 {commit} {what}", "root_cause": root, "replay": rp})
json.dump(kf, open(p, "w"), indent=1, ensure_ascii=False)
open(p, "a").write("\n")
print("C11 entries:", len(FIXED))
