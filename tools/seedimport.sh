#!/bin/bash
# tools/seedimport.sh <ID> : copies a sub-agent's deliverables from /tmp/seed/out/<ID>/{a,b} into /verif/seeded/<ID>/{a,b}
cd "$(dirname "$0")/.." || exit 2
id=$1
for v in ${SEED_VARIANTS:-a b}; do
  src=/tmp/seed/out/$id/$v
  [ -f "$src/patch.diff" ] || { echo "$id/$v: no patch"; continue; }
  dst=seeded/$id/$v; mkdir -p "$dst"
  cp "$src/patch.diff" "$dst/"
  cp "$src"/*_test.go "$dst/" 2>/dev/null
  [ -f "$src/demo.txt" ] && cp "$src/demo.txt" "$dst/"
  if [ -f "$src/meta.json" ]; then cp "$src/meta.json" "$dst/"; else
    python3 -c "import json; json.dump({'property':'$id','variant':'$v','title':'(agent delivered no meta.json)','demo':''}, open('$dst/meta.json','w'), indent=1)"; fi
  echo "$id/$v: $(python3 -c "import json;print(json.load(open('$dst/meta.json')).get('title',''))")"
done
