#!/usr/bin/env python3
"""One-off helper that (re)writes the C01 entries of known_findings.json and their replay files."""
import json, os
ROOT = os.path.dirname(os.path.dirname(os.path.abspath(__file__)))
P = "output-ill-typed\\|"
F = [
 ("untyped-nil", "use of the untyped nil as initialiser / assigned value is accepted (`var g = nil`, `x := nil`, `_ = nil`)", "type_var_and_const.go endInit / codebuild.go Assign: no check that an untyped nil has a target type",
  [P+"use of untyped nil in (variable declaration|assignment|assignment to _ identifier).*"],
  "package main\n\nvar g = nil\n\nfunc f() {\n\tx := nil\n\t_ = nil\n}\n", False),
 ("conv-nargs", "a conversion with more than one argument is accepted (`int(1, 1)`)", "ast.go matchFuncCall (TypeType case) does not check the argument count",
  [P+"too many arguments in conversion to .*"], "package main\n\nvar g = int(1, 1)\n", False),
 ("const-overflow-compare", "an untyped constant that overflows the other operand's type is accepted in case clauses and comparisons (`switch u8 { case 300: }`, `u8 == 300`)", "template.go untypedComparable / stmt.go case matching: no representability check",
  [P+".* \\(untyped \\w+ constant.*\\) (overflows|truncated to) \\w+.*"],
  "package main\n\nvar u uint8\n\nfunc f() {\n\tswitch u {\n\tcase 300:\n\t}\n}\n", False),
 ("index-type", "index expressions are not checked: map index of the wrong key type, string constant / float constant / string variable as slice or string index", "util_gengo.go Index / IndexRef: `TODO: check index type`",
  [P+"cannot use .* as .* value in map index.*", P+"invalid argument: index .* must be integer.*"],
  "package main\n\nvar m map[string]int\nvar i int\nvar s string\n\nvar g = m[i]\nvar h = s[s]\n", False),
 ("untyped-string-as-int", "an untyped string constant is accepted where an integer is required (slice index, make size, int(\"k\"))", "no representability check of untyped string constants against integer parameters",
  [P+"cannot convert .* \\(untyped \\w+ constant.*\\) to type \\w+.*"], "package main\n\nvar xs []int\n\nvar g = xs[\"k\"]\n", False),
 ("send", "send statements are not checked: wrong value type, send on a receive-only channel, send to nil", "codebuild.go Send: `TODO: check types`",
  [P+"cannot use .* value in send.*", P+"invalid operation: cannot send to (receive-only channel|non-channel) .*"],
  "package main\n\nvar c chan int\nvar r <-chan string\n\nfunc f() {\n\tc <- \"s\"\n}\n\nfunc g() {\n\tr <- \"s\"\n}\n", False),
 ("int-op-on-float", "integer-only operators (% & | ^ &^) accept float and complex operands", "constraint.go / builtin.go: the `integer` constraint of the operator templates is the number kinds",
  [P+"invalid operation: operator (%|&|\\||\\^|&\\^) not defined on .* \\((variable|value|constant .*) of type (float32|float64|F|complex128|complex64)\\).*", P+"invalid operation: shifted operand .* \\((variable|value) of type (float32|float64|F|complex128)\\) must be integer.*"],
  "package main\n\nvar f float64\n\nvar g = f % f\nvar h = f ^ f\n", False),
 ("define-blank", "`_ := x` (no new variable on the left of :=) is accepted", "type_var_and_const.go newValueDecl: scope.Lookup(\"_\") == nil counts the blank identifier as a new variable",
  [P+"no new variables on left side of :=.*"], "package main\n\nfunc f() {\n\t_ := 1\n}\n", False),
 ("default-int-overflow", "an untyped integer constant that does not fit its default type int is accepted where the default type is used (`x := 1 << 70`, `_ = 1 << 70`, untyped elements of map/struct literals)", "no representability check when an untyped constant takes its default type",
  [P+"cannot use .* \\(untyped int constant N\\) as int value in .* \\(overflows\\).*"],
  "package main\n\nfunc f() {\n\tx := 1 << 70\n\t_ = x\n}\n", False),
 ("const-index-range", "constant indices outside a constant string / array are accepted", "util_gengo.go Slice/Index: no bounds check for constant operands",
  [P+"invalid argument: index N out of bounds \\[N:N\\].*", P+"invalid slice indices: N < N.*", P+"invalid argument: index .* \\(constant -?N of type int\\) must not be negative.*"], "package main\n\nvar g = \"\"[1:]\n", False),
 ("neg-shift", "a negative constant shift count is accepted", "builtin_gengo.go shift templates: count is not checked",
  [P+"invalid operation: negative shift count .*"], "package main\n\nvar u uint8\n\nvar g = u << -1\n", False),
 ("dup-case", "duplicate constant cases in an expression switch are accepted", "stmt.go caseStmt: no duplicate detection",
  [P+"duplicate case .* in expression switch.*"], "package main\n\nfunc f(x int) {\n\tswitch x {\n\tcase 1:\n\tcase 1:\n\t}\n}\n", False),
 ("make-args", "make with the wrong number of arguments is accepted (`make([]int)`, `make(chan int, 1, 1)`)", "builtin_gengo.go make instruction",
  [P+"invalid operation: make\\(.*\\) expects N or N arguments; found N.*", P+"invalid argument: length and capacity swapped.*"], "package main\n\nvar g = make([]int)\nvar h = make(chan int, 1, 1)\n", False),
 ("const-conv", "conversion of a typed constant that is not representable in the target type is accepted (`int(float64(1.25))`)", "ast.go: constant conversions keep the unconverted value and are not range-checked (DESIGN D5)",
  [P+"cannot convert .* \\(constant .* of type .*\\) to type .*", P+"constant -?N(\\.N)? overflows \\w+.*"], "package main\n\nvar g = int(float64(1.25))\n", False),
 ("conv-invalid", "conversions between unconvertible types are accepted (`int(m)` for a map m, `int8(&x)`)", "template.go ConvertibleTo is not consulted for every conversion path",
  [P+"cannot convert .* \\((variable|value) of type .*\\) to type .*"], "package main\n\nvar m map[string]int\n\nvar g = int(m)\n", False),
 ("complit-elem", "element types of composite literals are not fully checked: positional struct literal with a value of the wrong type, slice literal with a rune variable as int element", "util_gengo.go StructLit / SliceLitEx use AssignableTo on default types",
  [P+"cannot use .* value in (struct literal|array or slice literal).*"],
  "package main\n\ntype S struct {\n\ta float64\n}\n\nvar i int\nvar g = S{i}\n", False),
 ("iface-compare", "comparison of an interface value with a value of a non-comparable type is accepted (`any != []byte`)", "template.go ComparableTo falls back to AssignableConv",
  [P+"invalid operation: .* \\((slice|map|func) can only be compared to nil\\).*", P+"invalid operation: .* \\(struct containing .* cannot be compared\\).*"], "package main\n\nvar a any\nvar b []byte\n\nvar g = a != b\n", False),
 ("multi-value", "a multi-value call is accepted in a single-value position of a multi-expression list (`x, y := two(), two()`)", "type_var_and_const.go endInit: tuple results are not rejected when several initialisers are given",
  [P+"multiple-value .* in single-value context.*"], "package main\n\nfunc two() (int, string) { return 1, \"\" }\n\nfunc f() {\n\tx, y := two(), two()\n\t_, _ = x, y\n}\n", False),
 ("nil-operand", "the untyped nil is accepted as operand of a type switch / generic call", "no operand-kind check",
  [P+"nil is not an interface.*", P+"in call to .*, cannot infer .*"], "package main\n\nfunc f() {\n\tswitch nil.(type) {\n\t}\n}\n", False),
 ("type-as-value", "a type is accepted as the value of a short variable declaration (`x := S`)", "type_var_and_const.go endInit does not reject TypeType operands",
  [P+".* \\(type\\) is not an expression.*"], "package main\n\ntype S struct{}\n\nfunc f() {\n\tx := S\n\t_ = x\n}\n", False),
 ("div-zero", "integer remainder by the constant zero is accepted (`i % 0`; only `/` is guarded)", "codebuild.go:1643 guards QUO only",
  [P+"invalid operation: division by zero.*"], "package main\n\nvar i int\n\nvar g = i % 0\n", False),
 ("select-comm", "an arbitrary simple statement is accepted as the communication of a select case", "stmt.go commCase: the statement kind is not checked",
  [P+"select case must be send or receive.*"], "package main\n\nfunc f() {\n\tselect {\n\tcase v := 1:\n\t\t_ = v\n\t}\n}\n", False),
 ("xgo-big-const", "XGo-builtin configuration: a constant declaration whose value exceeds 64 bits is emitted with a big.Int function-literal initialiser, which is not a constant expression", "ast.go untypeBig rewrites the value of an untyped big constant even inside const declarations",
  [P+"\\(func\\(\\) \\*big\\.(Int|Rat) literal\\)\\(\\) \\(value of type \\*big\\.(Int|Rat)\\) is not constant.*", P+"big\\.New(Int|Rat)\\(.*\\) \\(value of type \\*big\\.(Int|Rat)\\) is not constant.*"],
  "package main\n\nfunc f() {\n\tconst c = 1 << 70\n\tconst d = c >> 68\n\t_ = d\n}\n", True),
 ("slice-non-sliceable", "a slice expression on a non-sliceable operand (struct) is accepted", "util_gengo.go Slice: operand kind not checked for every type",
  [P+"invalid operation: cannot slice .* \\((variable|value) of type .*\\).*"], "package main\n\ntype S struct{ a int }\n\nvar s S\n\nvar g = s[:]\n", False),
 ("dup-param", "two parameters of one function with the same name are accepted", "func.go NewFuncWith / startFuncBody insertParams ignores the result of scope.Insert",
  [P+".* redeclared in this block.*"], "package main\n\nfunc f(p int, p string) {}\n", False),
 ("case-mismatch", "a case value whose type mismatches the switch tag is accepted when the underlying types agree (`switch n { case i: }` with n of type N int)", "template.go ComparableTo: getUnderlying(V) == getUnderlying(T) is taken as comparable",
  [P+"invalid case .* in switch on .* \\(mismatched types .* and .*\\).*\\[same-underlying\\]"], "package main\n\ntype N int\n\nvar n N\nvar i int\n\nfunc f() {\n\tswitch n {\n\tcase i:\n\t}\n}\n", False),
 ("compare-underlying", "comparison of operands of different types is accepted when their underlying types are identical (`s == str` with string and a named string type)", "template.go ComparableTo: getUnderlying(V) == getUnderlying(T) is taken as comparable",
  [P+"invalid operation: .* \\(mismatched types .* and .*\\).*\\[same-underlying\\]"], "package main\n\ntype Str string\n\nvar s string\nvar t Str\n\nvar g = s == t\n", False),
 ("generic-uninst", "a generic function is accepted as a value without instantiation (`any(Sum)`)", "ast.go: conversion / assignment of an uninstantiated generic function value is not rejected",
  [P+"cannot use generic function .* without instantiation.*"], "package main\n\nfunc Id[T any](x T) T { return x }\n\nvar g = any(Id)\n", False),
 ("init-cycle", "a package-level variable whose initialiser refers to itself (directly or through a cycle) is accepted (`var g bool = g`)", "the builder has no initialization-order analysis",
  [P+"initialization cycle.*"], "package main\n\nvar g1 bool = g1\n", False),
]
kf_path = os.path.join(ROOT, "known_findings.json")
kf = json.load(open(kf_path))
kf["findings"] = [f for f in kf["findings"] if not (f["id"].startswith("F-C01-") and f["status"] == "known")]
for (name, what, root, sigs, src, xgo) in F:
    fid = "F-C01-" + name
    rp = f"replays/{fid}.json"
    json.dump({"files": [src], "xgo": xgo}, open(os.path.join(ROOT, rp), "w"), indent=1)
    kf["findings"].append({"id": fid, "property": "C01", "status": "known", "what": what, "root_cause": root, "replay": rp, "sigs": sigs})
json.dump(kf, open(kf_path, "w"), indent=1)
print(len(F), "C01 findings written")
