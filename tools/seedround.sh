#!/bin/bash
# tools/seedround.sh <variants...> : imports every complete delivery under /tmp/seed/out/<ID>/<v> (patch.diff + meta.json)
# that has no result.json yet and runs its property's quick check against it in the scratch copy (tools/seedscratch.sh),
# one at a time. Loops until /tmp/seed/STOP exists.
cd "$(dirname "$0")/.." || exit 2
while [ ! -e /tmp/seed/STOP ]; do
  did=0
  for id in C01 C02 C03 C04 C05 C06 C07 C08 C09 C10 C11 C12 C13 C14 C15 C16 C17 C18 C19 C20; do
    for v in "$@"; do
      [ -e /tmp/seed/STOP ] && exit 0
      src=/tmp/seed/out/$id/$v
      [ -f "$src/patch.diff" ] && [ -f "$src/meta.json" ] || continue
      [ -f "seeded/$id/$v/result.json" ] && continue
      SEED_VARIANTS="$v" tools/seedimport.sh $id
      tools/seedscratch.sh seeded/$id/$v 2>&1 | tail -1
      did=1
    done
  done
  [ $did = 0 ] && sleep 30
done
