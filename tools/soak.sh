#!/bin/bash
# tools/soak.sh <tier> <seed>... : runs every check at the given seeds and prints one line per run
cd "$(dirname "$0")/.." || exit 2
tier=$1; shift
for seed in "$@"; do
  for id in C01 C02 C03 C04 C05 C06 C07 C08 C09 C10 C11 C12 C13 C14 C15 C16 C17 C18 C19 C20; do
    out=$(VERIF_SEED=$seed ./check $id --tier $tier 2>&1); rc=$?
    echo "seed=$seed $id rc=$rc $(echo "$out" | grep -c '^VIOLATION') violations; $(echo "$out" | tail -1)"
    if [ $rc -ne 0 ]; then echo "$out" | grep -E "VIOLATION|INCONCLUSIVE|BUILD" | head -5; fi
  done
done
