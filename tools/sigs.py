#!/usr/bin/env python3
"""Development aid: summarise the SIG: classes of an evidence file written under VERIF_COLLECT=1."""
import json, sys, re
e = json.load(open(f'/verif/evidence/{sys.argv[1]}.json'))
c = e['coverage']
n = int(sys.argv[2]) if len(sys.argv) > 2 else 40
w = int(sys.argv[3]) if len(sys.argv) > 3 else 200
sigs = {k: v for k, v in c['classes'].items() if k.startswith('SIG:')}
for k, v in sorted(sigs.items(), key=lambda kv: -kv[1])[:n]:
    print(v, k[4:4+w])
    if len(sys.argv) > 4:
        print('      ', c.get('EX:' + k[4:], '')[:int(sys.argv[4])].replace('\n', '\n       '))
print(len(sigs), 'distinct sigs; evaluations', c['evaluations'])
