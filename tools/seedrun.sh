#!/bin/bash
# tools/seedrun.sh <seeded/ID/variant dir> [check ids...] : applies the seeded change to /repo, runs
# the listed checks (default: the change's own property) in the quick tier, reverts /repo, and writes
# result.json next to the patch. /repo must be clean.
set -u
cd "$(dirname "$0")/.." || exit 2
dir=$1; shift
[ -f "$dir/patch.diff" ] || { echo "no patch in $dir"; exit 2; }
if [ -n "$(git -C /repo status --porcelain)" ]; then echo "/repo is not clean"; exit 2; fi
prop=$(python3 -c "import json,sys; print(json.load(open('$dir/meta.json'))['property'])")
checks=("$@"); [ ${#checks[@]} -eq 0 ] && checks=("$prop")
git -C /repo apply "$PWD/$dir/patch.diff" || { echo "patch does not apply"; exit 2; }
res="{"
for id in "${checks[@]}"; do
  tier=${SEED_TIER:-quick}
  out=$(./check "$id" --tier "$tier" 2>&1); rc=$?
  nviol=$(echo "$out" | grep -c '^VIOLATION')
  first=$(echo "$out" | grep -A2 '^VIOLATION' | head -3 | tr '\n' ' ' | cut -c1-300 | sed 's/\\/\\\\/g; s/"/\\"/g')
  echo "$dir $id rc=$rc violations=$nviol"
  res="$res\"$id\": {\"exit\": $rc, \"violation_lines\": $nviol, \"tier\": \"$tier\", \"first\": \"$first\"},"
done
git -C /repo checkout -- . ; git -C /repo clean -fdq
res="${res%,}}"
echo "$res" | python3 -c "import json,sys; d=json.load(sys.stdin); p='$dir/result.json';
import os
old=json.load(open(p)) if os.path.exists(p) else {}
old.update(d); json.dump(old, open(p,'w'), indent=1)"
