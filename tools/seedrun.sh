#!/bin/bash
# tools/seedrun.sh <seeded/ID/variant dir> [check ids...] : applies the seeded change to /repo, runs
# the listed checks (default: the change's own property) in the quick tier (SEED_TIER overrides),
# reverts /repo, and records exit code and VIOLATION lines in result.json next to the patch.
set -u
cd "$(dirname "$0")/.." || exit 2
dir=$1; shift
[ -f "$dir/patch.diff" ] || { echo "no patch in $dir"; exit 2; }
if [ -n "$(git -C /repo status --porcelain)" ]; then echo "/repo is not clean"; exit 2; fi
prop=$(python3 -c "import json,sys; print(json.load(open('$dir/meta.json'))['property'])" 2>/dev/null)
checks=("$@"); [ ${#checks[@]} -eq 0 ] && checks=("$prop")
git -C /repo apply "$PWD/$dir/patch.diff" || { echo "patch does not apply"; exit 2; }
tier=${SEED_TIER:-quick}
for id in "${checks[@]}"; do
  ./check "$id" --tier "$tier" > "$dir/.run.out" 2>&1; rc=$?
  python3 - "$dir" "$id" "$rc" "$tier" <<'PY' 2>/dev/null
import json, os, sys
d, cid, rc, tier = sys.argv[1], sys.argv[2], int(sys.argv[3]), sys.argv[4]
out = open(os.path.join(d, ".run.out"), errors="replace").read().splitlines()
viol = [i for i, l in enumerate(out) if l.startswith("VIOLATION")]
first = " ".join(x.strip() for x in out[viol[0]:viol[0]+3])[:400] if viol else ""
p = os.path.join(d, "result.json")
res = json.load(open(p)) if os.path.exists(p) else {}
res[cid] = {"exit": rc, "violation_lines": len(viol), "tier": tier, "first": first, "summary": out[-1] if out else ""}
json.dump(res, open(p, "w"), indent=1)
print(d, cid, "rc=%d" % rc, "violations=%d" % len(viol), first[:160])
PY
  rm -f "$dir/.run.out"
done
git -C /repo checkout -- . ; git -C /repo clean -fdq
# replays saved for the seeded violations are not findings of the unchanged tree
git ls-files --others --exclude-standard replays | grep -E '^replays/C[0-9][0-9]-[0-9a-f]+\.json$' | xargs -r rm -f
