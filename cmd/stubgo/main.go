// stubgo stands in for the `go` command in the C20 harness: it answers `go list -export` from the
// files under $VERIF_STUB_DIR that the harness rewrites whenever its scripted world changes,
// "builds" the export file it names, and logs every invocation.
package main

import (
	"fmt"
	"os"
	"path/filepath"
	"strings"
)

func main() {
	d := os.Getenv("VERIF_STUB_DIR")
	if d == "" {
		fmt.Fprintln(os.Stderr, "stub go: VERIF_STUB_DIR not set")
		os.Exit(2)
	}
	if f, err := os.OpenFile(filepath.Join(d, "calls.log"), os.O_APPEND|os.O_CREATE|os.O_WRONLY, 0o644); err == nil {
		fmt.Fprintln(f, strings.Join(os.Args[1:], " "))
		f.Close()
	}
	if _, err := os.Stat(filepath.Join(d, "fail")); err == nil {
		fmt.Fprintln(os.Stderr, "stub go: listing failed")
		os.Exit(1)
	}
	_, malformed := os.Stat(filepath.Join(d, "malformed"))
	var out strings.Builder
	for _, a := range os.Args[1:] {
		if a == "list" || strings.HasPrefix(a, "-") {
			continue
		}
		e := strings.ReplaceAll(a, "/", "_")
		line, err := os.ReadFile(filepath.Join(d, "pkgs", e))
		if err != nil {
			fmt.Fprintf(os.Stderr, "stub go: no such package %s\n", a)
			os.Exit(1)
		}
		if malformed == nil {
			out.WriteString(a + " no-tabs-here\n")
			continue
		}
		parts := strings.Split(string(line), "\t")
		if len(parts) >= 2 {
			if _, err := os.Stat(parts[1]); err != nil {
				src, _ := os.ReadFile(filepath.Join(d, "src", e))
				os.WriteFile(parts[1], src, 0o644)
			}
		}
		out.Write(line)
	}
	os.Stdout.WriteString(out.String())
}
