/* C twin of cmd/stubgo/main.go (process start-up is ~6x cheaper, which matters because every
 * listing in a C20 history is one spawn). Same behaviour: log the call, fail / print malformed
 * lines when asked, otherwise print the package's line and build its export file. */
#include <stdio.h>
#include <stdlib.h>
#include <string.h>
#include <unistd.h>

static char buf[1 << 16];

static int exists(const char *dir, const char *name) {
	char p[4096];
	snprintf(p, sizeof p, "%s/%s", dir, name);
	return access(p, F_OK) == 0;
}

int main(int argc, char **argv) {
	const char *d = getenv("VERIF_STUB_DIR");
	char p[4096], e[1024];
	if (!d) { fprintf(stderr, "stub go: VERIF_STUB_DIR not set\n"); return 2; }
	snprintf(p, sizeof p, "%s/calls.log", d);
	FILE *lf = fopen(p, "a");
	if (lf) {
		for (int i = 1; i < argc; i++) fprintf(lf, "%s%s", i > 1 ? " " : "", argv[i]);
		fputc('\n', lf);
		fclose(lf);
	}
	if (exists(d, "fail")) { fprintf(stderr, "stub go: listing failed\n"); return 1; }
	int malformed = exists(d, "malformed");
	size_t used = 0;
	for (int i = 1; i < argc; i++) {
		const char *a = argv[i];
		if (strcmp(a, "list") == 0 || a[0] == '-') continue;
		snprintf(e, sizeof e, "%s", a);
		for (char *c = e; *c; c++) if (*c == '/') *c = '_';
		snprintf(p, sizeof p, "%s/pkgs/%s", d, e);
		FILE *f = fopen(p, "r");
		if (!f) { fprintf(stderr, "stub go: no such package %s\n", a); return 1; }
		char line[8192];
		size_t n = fread(line, 1, sizeof line - 1, f);
		fclose(f);
		line[n] = 0;
		if (malformed) {
			used += snprintf(buf + used, sizeof buf - used, "%s no-tabs-here\n", a);
			continue;
		}
		char *t1 = strchr(line, '\t');
		if (t1) {
			char *t2 = strchr(t1 + 1, '\t');
			if (t2) {
				char exp[4096];
				size_t len = (size_t)(t2 - t1 - 1);
				if (len < sizeof exp) {
					memcpy(exp, t1 + 1, len);
					exp[len] = 0;
					if (access(exp, F_OK) != 0) {
						char src[8192];
						snprintf(p, sizeof p, "%s/src/%s", d, e);
						FILE *sf = fopen(p, "r");
						size_t sn = 0;
						if (sf) { sn = fread(src, 1, sizeof src, sf); fclose(sf); }
						FILE *of = fopen(exp, "w");
						if (of) { fwrite(src, 1, sn, of); fclose(of); }
					}
				}
			}
		}
		if (used + n < sizeof buf) { memcpy(buf + used, line, n); used += n; }
	}
	fwrite(buf, 1, used, stdout);
	return 0;
}
