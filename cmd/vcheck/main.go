// vcheck builds the property test binary from /repo's current working tree, runs the shards of one
// check, merges their statistics into evidence/<ID>.json and maps the outcome to the exit code
// contract: 0 held (KNOWN-FINDING lines allowed), 1 VIOLATION, 2 infrastructure / inconclusive.
package main

import (
	"bytes"
	"context"
	"crypto/sha256"
	"encoding/binary"
	"encoding/json"
	"fmt"
	"os"
	"os/exec"
	"path/filepath"
	"sort"
	"strconv"
	"strings"
	"sync"
	"time"
)

type propCfg struct {
	Test     string // -test.run pattern
	Race     bool
	Shards   [2]int           // quick, thorough
	Deadline [2]time.Duration // per shard
	Level    string
	Env      []string
	Extra    []part // further test functions of the same property (e.g. a -race build)
}

// part is one (test function, build mode) of a check; shards of all parts are merged.
type part struct {
	Test   string
	Race   bool
	Shards [2]int
}

var min = time.Minute

var props = map[string]propCfg{
	"C01": {Test: "^TestC01$", Shards: [2]int{12, 16}, Deadline: [2]time.Duration{8 * min, 60 * min}, Level: "exploration"},
	"C02": {Test: "^TestC02$", Shards: [2]int{12, 16}, Deadline: [2]time.Duration{8 * min, 60 * min}, Level: "exploration"},
	"C03": {Test: "^TestC03$", Shards: [2]int{12, 16}, Deadline: [2]time.Duration{8 * min, 60 * min}, Level: "exploration"},
	"C04": {Test: "^TestC04$", Shards: [2]int{12, 16}, Deadline: [2]time.Duration{8 * min, 60 * min}, Level: "exploration"},
	"C05": {Test: "^TestC05$", Shards: [2]int{12, 16}, Deadline: [2]time.Duration{8 * min, 60 * min}, Level: "exploration"},
	"C06": {Test: "^TestC06$", Shards: [2]int{12, 16}, Deadline: [2]time.Duration{8 * min, 60 * min}, Level: "exploration"},
	"C07": {Test: "^TestC07$", Shards: [2]int{12, 16}, Deadline: [2]time.Duration{8 * min, 60 * min}, Level: "exploration"},
	"C08": {Test: "^TestC08$", Shards: [2]int{12, 16}, Deadline: [2]time.Duration{8 * min, 60 * min}, Level: "exploration"},
	"C09": {Test: "^TestC09$", Shards: [2]int{12, 16}, Deadline: [2]time.Duration{8 * min, 60 * min}, Level: "exploration"},
	"C10": {Test: "^TestC10$", Shards: [2]int{12, 16}, Deadline: [2]time.Duration{8 * min, 60 * min}, Level: "exploration"},
	"C11": {Test: "^TestC11$", Shards: [2]int{12, 16}, Deadline: [2]time.Duration{8 * min, 60 * min}, Level: "exploration"},
	"C12": {Test: "^TestC12$", Shards: [2]int{12, 16}, Deadline: [2]time.Duration{8 * min, 60 * min}, Level: "exploration"},
	"C13": {Test: "^TestC13$", Shards: [2]int{12, 16}, Deadline: [2]time.Duration{8 * min, 60 * min}, Level: "exploration"},
	"C14": {Test: "^TestC14$", Shards: [2]int{12, 16}, Deadline: [2]time.Duration{8 * min, 60 * min}, Level: "exploration"},
	"C15": {Test: "^TestC15$", Shards: [2]int{12, 16}, Deadline: [2]time.Duration{8 * min, 60 * min}, Level: "exploration"},
	"C16": {Test: "^TestC16$", Shards: [2]int{12, 16}, Deadline: [2]time.Duration{8 * min, 60 * min}, Level: "exploration"},
	"C17": {Test: "^TestC17$", Shards: [2]int{12, 16}, Deadline: [2]time.Duration{8 * min, 60 * min}, Level: "exploration"},
	"C18": {Test: "^TestC18$", Race: true, Shards: [2]int{4, 8}, Deadline: [2]time.Duration{8 * min, 60 * min}, Level: "exploration"},
	"C19": {Test: "^TestC19$", Shards: [2]int{12, 16}, Deadline: [2]time.Duration{8 * min, 60 * min}, Level: "exploration"},
	"C20": {Test: "^TestC20$", Shards: [2]int{10, 12}, Deadline: [2]time.Duration{8 * min, 60 * min}, Level: "fault_enumeration",
		Extra: []part{{Test: "^TestC20Race$", Race: true, Shards: [2]int{4, 4}}}},
}

type violation struct {
	Msg    string          `json:"msg"`
	Sig    string          `json:"sig,omitempty"`
	Replay json.RawMessage `json:"replay"`
}

type shardFile struct {
	ID          string           `json:"id"`
	Evals       int64            `json:"evaluations"`
	Classes     map[string]int64 `json:"classes"`
	Samples     []any            `json:"samples"`
	KnownHits   map[string]int64 `json:"known_hits"`
	KnownLines  map[string]bool  `json:"known_lines"`
	Violations  []violation      `json:"violations"`
	Notes       []string         `json:"notes"`
	Exhaustive  bool             `json:"exhaustive"`
	Rule        string           `json:"rule"`
	Assumptions []string         `json:"assumptions"`
	Completed   bool             `json:"completed"`
	Extra       map[string]any   `json:"extra"`
}

type finding struct {
	ID       string `json:"id"`
	Property string `json:"property"`
	Status   string `json:"status"`
	What     string `json:"what"`
}

func splitmix(x uint64) uint64 {
	x += 0x9e3779b97f4a7c15
	x = (x ^ (x >> 30)) * 0xbf58476d1ce4e5b9
	x = (x ^ (x >> 27)) * 0x94d049bb133111eb
	return x ^ (x >> 31)
}

func die(code int, format string, a ...any) {
	fmt.Fprintf(os.Stderr, format+"\n", a...)
	os.Exit(code)
}

func cleanEnv(extra ...string) []string {
	var env []string
	for _, e := range os.Environ() {
		k := e[:strings.IndexByte(e, '=')+0]
		if i := strings.IndexByte(e, '='); i >= 0 {
			k = e[:i]
		}
		switch k {
		case "GOFLAGS", "GOPROXY", "GOSUMDB", "GOTOOLCHAIN", "GOWORK":
			continue
		}
		env = append(env, e)
	}
	env = append(env, "GOFLAGS=", "GOPROXY=off", "GOSUMDB=off", "GOTOOLCHAIN=local", "GOWORK=off")
	return append(env, extra...)
}

func main() {
	args := os.Args[1:]
	if len(args) < 1 {
		die(2, "usage: vcheck <ID> [--tier quick|thorough] [--replay FILE]")
	}
	id := args[0]
	cfg, ok := props[id]
	if !ok {
		die(2, "unknown property %s", id)
	}
	tier := os.Getenv("VERIF_TIER")
	replay := ""
	for i := 1; i < len(args); i++ {
		switch args[i] {
		case "--tier":
			i++
			tier = args[i]
		case "--replay":
			i++
			replay = args[i]
		default:
			die(2, "unknown argument %s", args[i])
		}
	}
	if tier != "thorough" {
		tier = "quick"
	}
	ti := 0
	if tier == "thorough" {
		ti = 1
	}
	seed := uint64(1)
	if s := os.Getenv("VERIF_SEED"); s != "" {
		if v, err := strconv.ParseUint(s, 10, 64); err == nil {
			seed = v
		} else if v, err := strconv.ParseInt(s, 10, 64); err == nil {
			seed = uint64(v)
		}
	}
	if seed == 0 {
		seed = 1
	}
	root, _ := os.Getwd()
	if exe, err := os.Executable(); err == nil {
		if d := filepath.Dir(filepath.Dir(exe)); fileExists(filepath.Join(d, "properties.jsonl")) {
			root = d
		}
	}
	start := time.Now()

	// 1. build the test binaries from /repo's working tree
	parts := append([]part{{Test: cfg.Test, Race: cfg.Race, Shards: cfg.Shards}}, cfg.Extra...)
	bins := map[bool]string{}
	for _, pt := range parts {
		if _, done := bins[pt.Race]; done {
			continue
		}
		bin := filepath.Join(root, ".bin", id+".test")
		buildArgs := []string{"test", "-c", "-mod=mod", "-tags", "verif", "-vet=off"}
		if pt.Race {
			bin = filepath.Join(root, ".bin", id+".race.test")
			buildArgs = append(buildArgs, "-race")
		}
		buildArgs = append(buildArgs, "-o", bin, "./h/props")
		cmd := exec.Command("go", buildArgs...)
		cmd.Dir = root
		cmd.Env = cleanEnv()
		if out, err := cmd.CombinedOutput(); err != nil {
			fmt.Printf("BUILD-FAILED property=%s\n%s\n", id, out)
			os.Exit(2)
		}
		bins[pt.Race] = bin
	}
	if id == "C20" {
		stub := filepath.Join(root, ".bin", "stubgo")
		built := false
		for _, cc := range []string{"clang", "gcc", "cc"} {
			if _, err := exec.LookPath(cc); err != nil {
				continue
			}
			cmd := exec.Command(cc, "-O1", "-static", "-o", stub, filepath.Join(root, "cmd", "stubgo", "stubgo.c"))
			if err := cmd.Run(); err == nil {
				built = true
				break
			}
		}
		if !built { // same behaviour, slower start-up
			cmd := exec.Command("go", "build", "-mod=mod", "-o", stub, "./cmd/stubgo")
			cmd.Dir = root
			cmd.Env = cleanEnv()
			if out, err := cmd.CombinedOutput(); err != nil {
				fmt.Printf("BUILD-FAILED property=%s (stubgo)\n%s\n", id, out)
				os.Exit(2)
			}
		}
	}
	work := filepath.Join(root, ".work", id)
	os.RemoveAll(work)
	os.MkdirAll(work, 0o755)

	type shardPlan struct {
		test, bin string
		idx, n    int
	}
	var plan []shardPlan
	for pi, pt := range parts {
		n := pt.Shards[ti]
		if s := os.Getenv("VERIF_SHARDS"); s != "" && pi == 0 {
			if v, err := strconv.Atoi(s); err == nil && v > 0 {
				n = v
			}
		}
		if replay != "" {
			if pi > 0 {
				break
			}
			n = 1
		}
		for k := 0; k < n; k++ {
			plan = append(plan, shardPlan{pt.Test, bins[pt.Race], k, n})
		}
	}
	if replay != "" && !filepath.IsAbs(replay) {
		replay, _ = filepath.Abs(replay)
	}
	nsh := len(plan)
	deadline := cfg.Deadline[ti]

	type result struct {
		sf       *shardFile
		hashes   []uint64
		err      error
		timedOut bool
		log      string
	}
	results := make([]result, nsh)
	var wg sync.WaitGroup
	for k := 0; k < nsh; k++ {
		wg.Add(1)
		go func(k int) {
			defer wg.Done()
			out := filepath.Join(work, fmt.Sprintf("shard-%d.json", k))
			logf := filepath.Join(work, fmt.Sprintf("shard-%d.log", k))
			ctx, cancel := context.WithTimeout(context.Background(), deadline)
			defer cancel()
			bin := plan[k].bin
			c := exec.CommandContext(ctx, bin, "-test.run", plan[k].test, "-test.timeout", "0", "-test.v")
			c.Dir = filepath.Join(root, "h", "props")
			shardSeed := splitmix(seed*1000003 + uint64(k))
			if shardSeed == 0 {
				shardSeed = 1
			}
			env := cleanEnv(append([]string{
				"VERIF_ROOT=" + root, "VERIF_TIER=" + tier, "VERIF_SHARD=" + strconv.Itoa(plan[k].idx), "VERIF_NSHARDS=" + strconv.Itoa(plan[k].n),
				"VERIF_SHARD_SEED=" + strconv.FormatUint(shardSeed, 10), "VERIF_OUT=" + out, "VERIF_REPLAY=" + replay,
				"VERIF_BIN=" + bin, "VERIF_WORK=" + work,
			}, cfg.Env...)...)
			c.Env = env
			lf, _ := os.Create(logf)
			c.Stdout, c.Stderr = lf, lf
			err := c.Run()
			lf.Close()
			res := result{err: err, log: logf, timedOut: ctx.Err() == context.DeadlineExceeded}
			if data, e := os.ReadFile(out); e == nil {
				var sf shardFile
				if e := json.Unmarshal(data, &sf); e == nil {
					res.sf = &sf
				}
			}
			if data, e := os.ReadFile(out + ".hashes"); e == nil {
				for i := 0; i+8 <= len(data); i += 8 {
					res.hashes = append(res.hashes, binary.LittleEndian.Uint64(data[i:]))
				}
			}
			results[k] = res
		}(k)
	}
	wg.Wait()

	// 1b. a shard that died without statistics (fatal error, out of memory, watchdog): re-run the case it
	// was working on alone; only if the isolated run dies too is it a violation (otherwise inconclusive)
	var confirmed []violation
	for k, res := range results {
		if res.sf != nil {
			continue
		}
		cur := filepath.Join(work, fmt.Sprintf("current-%d.json", plan[k].idx))
		data, err := os.ReadFile(cur)
		if err != nil || replay != "" {
			continue
		}
		out := filepath.Join(work, fmt.Sprintf("isolate-%d.json", k))
		ctx, cancel := context.WithTimeout(context.Background(), 3*time.Minute)
		c := exec.CommandContext(ctx, plan[k].bin, "-test.run", plan[k].test, "-test.timeout", "0")
		c.Dir = filepath.Join(root, "h", "props")
		c.Env = cleanEnv("VERIF_ROOT="+root, "VERIF_TIER="+tier, "VERIF_SHARD=0", "VERIF_NSHARDS=1", "VERIF_SHARD_SEED=1", "VERIF_OUT="+out, "VERIF_REPLAY="+cur, "VERIF_WORK="+work)
		logb, _ := c.CombinedOutput()
		cancel()
		var sf shardFile
		if d2, e := os.ReadFile(out); e == nil && json.Unmarshal(d2, &sf) == nil && sf.Completed {
			continue // not reproducible in isolation
		}
		tail := string(logb)
		if len(tail) > 1500 {
			tail = tail[:700] + "\n...\n" + tail[len(tail)-700:]
		}
		confirmed = append(confirmed, violation{Msg: "the worker process died or hung while building this case, and again when the case was run alone:\n" + tail, Sig: "worker-death", Replay: data})
	}

	// 1c. -race builds: a data race report in a worker's log is a violation (replay = the case the
	// worker was on, if it recorded one)
	for k, res := range results {
		if !strings.HasSuffix(plan[k].bin, ".race.test") {
			continue
		}
		logb, err := os.ReadFile(res.log)
		if err != nil || !bytes.Contains(logb, []byte("WARNING: DATA RACE")) {
			continue
		}
		i := bytes.Index(logb, []byte("WARNING: DATA RACE"))
		excerpt := string(logb[i:])
		if len(excerpt) > 3000 {
			excerpt = excerpt[:3000] + "\n..."
		}
		data, _ := os.ReadFile(filepath.Join(work, fmt.Sprintf("current-%d.json", plan[k].idx)))
		if data == nil {
			data = []byte("null")
		}
		confirmed = append(confirmed, violation{Msg: "the race detector reported a data race:\n" + excerpt, Sig: "race", Replay: data})
	}

	// 2. merge
	merged := shardFile{Classes: map[string]int64{}, KnownHits: map[string]int64{}, KnownLines: map[string]bool{}, Extra: map[string]any{}}
	distinct := map[uint64]struct{}{}
	infra := []string{}
	allExhaustive := true
	merged.Violations = append(merged.Violations, confirmed...)
	for k, res := range results {
		if res.sf == nil && len(confirmed) > 0 {
			continue
		}
		if res.sf == nil {
			infra = append(infra, fmt.Sprintf("shard %d wrote no statistics (err=%v timedOut=%v log=%s)", k, res.err, res.timedOut, res.log))
			continue
		}
		sf := res.sf
		merged.Evals += sf.Evals
		for n, c := range sf.Classes {
			merged.Classes[n] += c
		}
		for n, c := range sf.KnownHits {
			merged.KnownHits[n] += c
		}
		for n := range sf.KnownLines {
			merged.KnownLines[n] = true
		}
		for _, h := range res.hashes {
			distinct[h] = struct{}{}
		}
		if len(merged.Samples) < 8 {
			for _, s := range sf.Samples {
				if len(merged.Samples) < 8 {
					merged.Samples = append(merged.Samples, s)
				}
			}
		}
		merged.Violations = append(merged.Violations, sf.Violations...)
		for _, n := range sf.Notes {
			if !contains(merged.Notes, n) {
				merged.Notes = append(merged.Notes, n)
			}
		}
		for n, v := range sf.Extra {
			if f, ok := v.(float64); ok {
				if old, ok := merged.Extra[n].(float64); ok {
					merged.Extra[n] = old + f
					continue
				}
			}
			merged.Extra[n] = v
		}
		if sf.Rule != "" {
			merged.Rule = sf.Rule
		}
		for _, a := range sf.Assumptions {
			if !contains(merged.Assumptions, a) {
				merged.Assumptions = append(merged.Assumptions, a)
			}
		}
		allExhaustive = allExhaustive && sf.Exhaustive
		if !sf.Completed && len(sf.Violations) == 0 {
			infra = append(infra, fmt.Sprintf("shard %d did not complete (err=%v timedOut=%v log=%s)", k, res.err, res.timedOut, res.log))
		}
	}

	// 3. report
	exit := 0
	findings := loadFindings(root, id)
	var fids []string
	for fid := range merged.KnownLines {
		fids = append(fids, fid)
	}
	sort.Strings(fids)
	for _, fid := range fids {
		what := fid
		for _, f := range findings {
			if f.ID == fid {
				what = f.ID + ": " + f.What
			}
		}
		fmt.Printf("KNOWN-FINDING: property=%s %s\n", id, what)
	}
	seen := map[string]bool{}
	for _, v := range merged.Violations {
		sum := sha256.Sum256(v.Replay)
		name := fmt.Sprintf("%s-%x.json", id, sum[:6])
		if seen[name] {
			continue
		}
		seen[name] = true
		path := filepath.Join(root, "replays", name)
		if replay != "" {
			path = replay
		} else {
			os.MkdirAll(filepath.Dir(path), 0o755)
			os.WriteFile(path, append([]byte(v.Replay), '\n'), 0o644)
		}
		fmt.Printf("VIOLATION property=%s replay=%s\n", id, path)
		fmt.Printf("  %s\n", strings.ReplaceAll(strings.TrimSpace(v.Msg), "\n", "\n  "))
		exit = 1
	}
	// Vacuity guard: a run in which (almost) no case was non-trivial by the check's own rule decided
	// nothing - e.g. because the tree under test rejects every generated input. That is not a pass.
	if exit == 0 && replay == "" && os.Getenv("VERIF_COLLECT") == "" && merged.Evals > 0 && int64(len(distinct))*20 < merged.Evals && len(distinct) < 100 {
		infra = append(infra, fmt.Sprintf("only %d of %d evaluated cases were non-trivial (fewer than 5%% and fewer than 100): the run decides nothing", len(distinct), merged.Evals))
	}
	if exit == 0 && len(infra) > 0 {
		for _, s := range infra {
			fmt.Printf("INCONCLUSIVE property=%s %s\n", id, s)
		}
		exit = 2
	}

	// 4. evidence
	if replay == "" {
		if merged.Samples == nil {
			merged.Samples = []any{} // an inconclusive run has no samples; the schema wants a list
		}
		cov := map[string]any{
			"evaluations":         merged.Evals,
			"distinct_nontrivial": len(distinct),
			"rule":                merged.Rule,
			"samples":             merged.Samples,
			"classes":             merged.Classes,
			"known_finding_hits":  merged.KnownHits,
			"shards":              nsh,
			"notes":               merged.Notes,
		}
		if allExhaustive && len(infra) == 0 {
			cov["exhaustive"] = true
		}
		for n, v := range merged.Extra {
			if _, dup := cov[n]; !dup {
				cov[n] = v
			}
		}
		if len(infra) > 0 {
			cov["inconclusive"] = infra
		}
		if merged.Assumptions == nil {
			merged.Assumptions = []string{}
		}
		ev := map[string]any{
			"property_id": id, "tier": tier, "seed": seed, "level": cfg.Level, "coverage": cov,
			"assumptions": merged.Assumptions, "wall_s": time.Since(start).Seconds(), "violations": len(seen),
		}
		data, _ := json.MarshalIndent(ev, "", " ")
		os.MkdirAll(filepath.Join(root, "evidence"), 0o755)
		if err := os.WriteFile(filepath.Join(root, "evidence", id+".json"), append(data, '\n'), 0o644); err != nil {
			fmt.Printf("INCONCLUSIVE property=%s cannot write evidence: %v\n", id, err)
			if exit == 0 {
				exit = 2
			}
		}
	}
	fmt.Printf("%s tier=%s seed=%d shards=%d evaluations=%d distinct_nontrivial=%d violations=%d wall=%.1fs exit=%d\n",
		id, tier, seed, nsh, merged.Evals, len(distinct), len(seen), time.Since(start).Seconds(), exit)
	os.Exit(exit)
}

func contains(l []string, s string) bool {
	for _, x := range l {
		if x == s {
			return true
		}
	}
	return false
}

func fileExists(p string) bool { _, err := os.Stat(p); return err == nil }

func loadFindings(root, id string) []finding {
	data, err := os.ReadFile(filepath.Join(root, "known_findings.json"))
	if err != nil {
		return nil
	}
	var kf struct {
		Findings []finding `json:"findings"`
	}
	json.Unmarshal(data, &kf)
	var out []finding
	for _, f := range kf.Findings {
		if f.Property == id {
			out = append(out, f)
		}
	}
	return out
}
